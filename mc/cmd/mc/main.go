// mc – bounded-exhaustive model checking of mikefarah/yq (see /verif/DESIGN.md).
package main

import (
	"flag"
	"fmt"
	"os"
	"strconv"
	"strings"
	"time"

	"verif/mc/internal/checks"
	"verif/mc/internal/fw"
	"verif/mc/internal/impl"
)

func main() {
	if len(os.Args) < 2 {
		fmt.Fprintf(os.Stderr, "usage: mc run <ID> --tier quick|thorough | mc worker … | mc replay <file> | mc list\n")
		os.Exit(2)
	}
	impl.Init()
	checks.RegisterAll()
	switch os.Args[1] {
	case "list":
		fmt.Println(strings.Join(fw.IDs(), " "))
	case "run":
		fs := flag.NewFlagSet("run", flag.ExitOnError)
		tier := fs.String("tier", "quick", "")
		seed := fs.Int64("seed", envSeed(), "")
		fs.Parse(os.Args[3:])
		os.Exit(fw.RunParent(os.Args[2], *tier, *seed))
	case "worker":
		fs := flag.NewFlagSet("worker", flag.ExitOnError)
		tier := fs.String("tier", "quick", "")
		shard := fs.String("shard", "0/1", "")
		seed := fs.Int64("seed", 0, "")
		budget := fs.Int("budget", 600, "")
		out := fs.String("out", "", "")
		fs.Parse(os.Args[3:])
		p := strings.Split(*shard, "/")
		i, _ := strconv.Atoi(p[0])
		n, _ := strconv.Atoi(p[1])
		if err := fw.RunWorker(os.Args[2], *tier, i, n, *seed, time.Duration(*budget)*time.Second, *out); err != nil {
			fmt.Fprintln(os.Stderr, "worker error:", err)
			os.Exit(3)
		}
	case "replay":
		os.Exit(fw.RunReplay(os.Args[2]))
	case "c11child":
		// mc c11child <tier> <shard> <nshards> <from> <deadline> <progress> <results>
		shard, _ := strconv.Atoi(os.Args[3])
		n, _ := strconv.Atoi(os.Args[4])
		from, _ := strconv.ParseInt(os.Args[5], 10, 64)
		dl, _ := strconv.ParseInt(os.Args[6], 10, 64)
		os.Exit(checks.C11Child(os.Args[2], shard, n, from, dl, os.Args[7], os.Args[8]))
	case "c18hist":
		os.Exit(checks.C18Hist(os.Args[2]))
	case "c18race":
		n, _ := strconv.Atoi(os.Args[2])
		part, parts := 0, 1
		if len(os.Args) > 3 {
			fmt.Sscanf(os.Args[3], "%d/%d", &part, &parts)
		}
		os.Exit(checks.C18Race(n, part, parts))
	case "tree":
		fmt.Println(checks.TreeOf(os.Args[2]))
	case "c11one":
		os.Exit(checks.C11One(os.Args[2]))
	default:
		fmt.Fprintf(os.Stderr, "unknown command %s\n", os.Args[1])
		os.Exit(2)
	}
}

func envSeed() int64 {
	if s := os.Getenv("VERIF_SEED"); s != "" {
		if v, err := strconv.ParseInt(s, 10, 64); err == nil {
			return v
		}
	}
	return 0
}
