module verif/mc

go 1.23.0

require (
	github.com/mikefarah/yq/v4 v4.0.0
	github.com/yuin/gopher-lua v1.1.1
	golang.org/x/text v0.23.0
	gopkg.in/op/go-logging.v1 v1.0.0-20160211212156-b2cb9fa56473
	gopkg.in/yaml.v3 v3.0.1
)

require (
	github.com/a8m/envsubst v1.4.2 // indirect
	github.com/alecthomas/participle/v2 v2.1.4 // indirect
	github.com/dimchansky/utfbom v1.1.1 // indirect
	github.com/elliotchance/orderedmap v1.8.0 // indirect
	github.com/fatih/color v1.18.0 // indirect
	github.com/goccy/go-json v0.10.5 // indirect
	github.com/goccy/go-yaml v1.13.3 // indirect
	github.com/jinzhu/copier v0.4.0 // indirect
	github.com/magiconair/properties v1.8.9 // indirect
	github.com/mattn/go-colorable v0.1.13 // indirect
	github.com/mattn/go-isatty v0.0.20 // indirect
	github.com/pelletier/go-toml/v2 v2.2.3 // indirect
	golang.org/x/net v0.34.0 // indirect
	golang.org/x/sys v0.29.0 // indirect
)

replace github.com/mikefarah/yq/v4 => /repo
