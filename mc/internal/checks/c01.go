package checks

import (
	"encoding/json"
	"fmt"
	"time"

	"verif/mc/internal/fw"
	"verif/mc/internal/impl"
	"verif/mc/internal/refsem"
	"verif/mc/internal/val"
)

// C01 – the core expression language evaluates according to its reference semantics.
// Exhaustive conformance exploration: every AST with <= k nodes over the core alphabet x every document of U(n),
// real evaluator against the reference abstract machine (results, errors, and the document state afterwards).

type exprCase struct {
	Expr string          `json:"expr"`
	AST  *refsem.E       `json:"ast"`
	Doc  string          `json:"doc"`
	Kind string          `json:"kind"`
	DocV json.RawMessage `json:"-"`
}

func c01Space(tier string) (exprs []*refsem.E, docs []*val.V, bound string) {
	if tier == "thorough" {
		exprs = refsem.CoreAlphabet(true).Enumerate(3)
		docs = val.Universe(4, val.Sigma(), []string{"a", "b"})
		bound = fmt.Sprintf("G(3) rich core alphabet (%d expressions) x U(4) (%d documents)", len(exprs), len(docs))
		return
	}
	exprs = refsem.CoreAlphabet(false).Enumerate(3)
	docs = val.Universe(3, val.Sigma(), []string{"a", "b"})
	bound = fmt.Sprintf("G(3) core alphabet (%d expressions) x U(3) (%d documents)", len(exprs), len(docs))
	return
}

func c01Run(c *fw.Ctx) error {
	exprs, docs, bound := c01Space(c.Tier)
	c.Res.Bound = bound
	reduced := 0
	for i, e := range exprs {
		if !c.Mine(int64(i)) {
			continue
		}
		if c.Expired() {
			break
		}
		text := e.String()
		parsed, err, pan := impl.Parse(text)
		if err != nil || pan != nil {
			c.Violation("parse-error:"+text, int64(i), exprCase{Expr: text, AST: e, Doc: "null", Kind: "parse-error"}, fmt.Sprintf("well-formed expression rejected: %v %v", err, pan))
			continue
		}
		nontrivialExpr := e.Op != "self"
		for _, d := range docs {
			r := compareCase(e, parsed, d, true)
			c.Eval(1)
			c.Outcome(r.Outcome)
			switch r.Kind {
			case "":
				c.Validated(1)
				if r.Defined && nontrivialExpr {
					c.Nontrivial(text + "\x00" + d.JSON())
				}
				if r.Defined && i%9973 == 7 {
					c.Sample(map[string]string{"expr": text, "doc": d.JSON(), "results": r.Outcome})
				}
			case "undef":
				c.Count("undefined_by_reference", 1)
			default:
				c.Validated(1)
				c.Count("mismatch_"+r.Kind, 1)
				if reduced > 4000 {
					c.Count("mismatches_not_reduced", 1)
					c.Res.Exhaustive = false
					continue
				}
				reduced++
				re, rd := reduceCase(e, d, r.Kind, true)
				rp, _, _ := impl.Parse(re.String())
				rr := compareCase(re, rp, rd, true)
				c.Violation(r.Kind+":"+re.String(), int64(re.Size())*1000+int64(rd.Size()), exprCase{Expr: re.String(), AST: re, Doc: rd.JSON(), Kind: r.Kind},
					fmt.Sprintf("expr %q on %s: %s   (first seen as %q on %s)", re.String(), rd.JSON(), rr.Detail, text, d.JSON()))
			}
		}
	}
	return nil
}

func exprReplay(checkDoc bool) func(raw json.RawMessage) (bool, string, error) {
	return func(raw json.RawMessage) (bool, string, error) {
		var cs exprCase
		if err := json.Unmarshal(raw, &cs); err != nil {
			return false, "", err
		}
		doc := fromJSONText(cs.Doc)
		parsed, err, pan := impl.Parse(cs.AST.String())
		if err != nil || pan != nil {
			return cs.Kind == "parse-error", fmt.Sprintf("parse: %v %v", err, pan), nil
		}
		r := compareCase(cs.AST, parsed, doc, checkDoc)
		if r.Kind == "" || r.Kind == "undef" {
			return false, "", nil
		}
		return true, fmt.Sprintf("expr %q on %s: %s: %s", cs.AST.String(), cs.Doc, r.Kind, r.Detail), nil
	}
}

func init() {
	registerLater(func() {
		fw.Register(&fw.Check{
			ID: "C01", Level: "model_checking",
			Rule: "every AST with <= k nodes over the core operator alphabet x every JSON-model document with <= n nodes; the real evaluator (parser + DataTreeNavigator) is compared with the reference abstract machine on ordered results, " +
				"error/no-error and the document state afterwards; non-trivial = expression other than `.` whose reference result is defined, not an error and not empty; distinct by (expression text, document)",
			Assumptions: []string{"the reference machine (mc/internal/refsem) is my reading of doc/operators/*.md and how-it-works.md; points the documentation leaves open are Undef and not compared (counted as undefined_by_reference)",
				"expressions are printed fully parenthesised: precedence is C09's subject"},
			Budget: func(t string) time.Duration {
				if t == "thorough" {
					return 40 * time.Minute
				}
				return 4 * time.Minute
			},
			Run: c01Run, Replay: exprReplay(true),
		})
	})
}
