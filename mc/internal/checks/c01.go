package checks

import (
	"encoding/json"
	"fmt"
	"strings"
	"time"

	"verif/mc/internal/fw"
	"verif/mc/internal/impl"
	"verif/mc/internal/refsem"
	"verif/mc/internal/val"
)

// C01 – the core expression language evaluates according to its reference semantics.
// Exhaustive conformance exploration: every AST with <= k nodes over the core alphabet x every document of U(n),
// real evaluator against the reference abstract machine (results, errors, and the document state afterwards).

type exprCase struct {
	Expr     string          `json:"expr"`
	AST      *refsem.E       `json:"ast"`
	Doc      string          `json:"doc"`
	Kind     string          `json:"kind"`
	DocV     json.RawMessage `json:"-"`
	Together []string        `json:"documents_evaluated_together,omitempty"`
}

func c01Space(tier string) (exprs []*refsem.E, docs []*val.V, bound string) {
	if tier == "thorough" {
		exprs = refsem.CoreAlphabet(true).Enumerate(3)
		docs = val.Universe(4, val.Sigma(), []string{"a", "b"})
		bound = fmt.Sprintf("G(3) rich core alphabet (%d expressions) x U(4) (%d documents)", len(exprs), len(docs))
		return
	}
	exprs = refsem.CoreAlphabet(false).Enumerate(3)
	docs = val.Universe(3, val.Sigma(), []string{"a", "b"})
	bound = fmt.Sprintf("G(3) core alphabet (%d expressions) x U(3) (%d documents)", len(exprs), len(docs))
	return
}

// c01Streams: several nodes of different shapes flow through one operator (each operator must treat every node of the stream
// by itself: bounds, lengths and keys are per node), documents are pairs and triples from a pool of differently sized containers.
func c01Streams(rich bool) (exprs []*refsem.E, docs []*val.V) {
	var pool []*val.V
	for _, t := range []string{`[]`, `[1]`, `[1, 2]`, `[3, 1, 2, 1]`, `{}`, `{"a": 1}`, `{"b": [1, 2], "a": 2}`, `"ab"`, `2`, `null`} {
		pool = append(pool, fromJSONText(t))
	}
	for _, x := range pool {
		for _, y := range pool {
			docs = append(docs, val.SeqV(x.Copy(), y.Copy()))
			docs = append(docs, val.MapV(val.StrV("a"), x.Copy(), val.StrV("b"), y.Copy()))
		}
	}
	for _, x := range pool[:4] {
		for _, y := range pool[:4] {
			for _, z := range pool[:4] {
				docs = append(docs, val.SeqV(x.Copy(), y.Copy(), z.Copy()))
			}
		}
	}
	// an integer key and a string key with the same text are two entries of the stream
	docs = append(docs, val.MapV(val.IntV(1), val.StrV("a"), val.StrV("1"), val.IntV(1), val.StrV("b"), val.IntV(0)),
		val.MapV(val.StrV("0"), val.SeqV(val.IntV(1)), val.IntV(0), val.SeqV(val.IntV(2), val.IntV(3))))
	for _, e := range refsem.CoreAlphabet(true).Enumerate(2) {
		exprs = append(exprs, refsem.Bin("pipe", refsem.Leaf("splat"), e))
	}
	return
}

// c01Scopes: what a binder (as, reduce) binds is visible in its body only. Every binder with small operands is put in front of
// every kind of continuation that reads the same name, with and without an outer binding of that name.
func c01Scopes() (exprs []*refsem.E, docs []*val.V) {
	leaves := refsem.CoreAlphabet(true).Enumerate(1)
	v := refsem.Var("x")
	for _, a := range leaves {
		for _, b := range leaves {
			for _, binder := range []*refsem.E{refsem.As(a, "x", b), refsem.Reduce(a, "x", refsem.Lit(val.IntV(0)), b)} {
				for _, t := range []*refsem.E{
					refsem.Bin("pipe", binder, v), refsem.Bin("union", binder, v), refsem.Bin("add", binder, v), refsem.Bin("add", v, binder),
					refsem.Bin("pipe", refsem.Un("collect", binder), v), refsem.Bin("pipe", refsem.Un("select", binder), v),
				} {
					exprs = append(exprs, t, refsem.As(refsem.Lit(val.IntV(5)), "x", t))
				}
			}
		}
	}
	// reduce blocks that drop the accumulator for some elements and bring it back for later ones
	for _, src := range []*refsem.E{refsem.Leaf("splat"), refsem.Bin("pipe", refsem.Key("a"), refsem.Leaf("splat"))} {
		for _, lit := range []int64{1, 2, 3} {
			for _, op := range []string{"ne", "eq"} {
				block := refsem.Bin("pipe", v, refsem.Un("select", refsem.Bin(op, refsem.Leaf("self"), refsem.Lit(val.IntV(lit)))))
				red := refsem.Reduce(src, "x", refsem.Lit(val.IntV(0)), block)
				exprs = append(exprs, red, refsem.Un("collect", red), refsem.Bin("pipe", red, refsem.Bin("add", refsem.Leaf("self"), refsem.Lit(val.IntV(1)))))
			}
		}
	}
	docs = append(docs, val.Universe(2, val.Sigma(), []string{"a", "b"})...)
	for _, t := range []string{`[1, 2, 3]`, `{"a": 1, "b": 2}`, `[[1], [2, 3]]`, `[2, 1, 2]`, `[3, 2]`, `[2, 3, 1]`, `{"a": [1, 2, 3]}`, `{"a": [2, 2, 1]}`} {
		docs = append(docs, fromJSONText(t))
	}
	return
}

func c01Run(c *fw.Ctx) error {
	exprs, docs, bound := c01Space(c.Tier)
	sExprs, sDocs := c01Streams(true)
	bExprs, bDocs := c01Scopes()
	c.Res.Bound = bound + fmt.Sprintf("; streams: `.[] | e` for the %d expressions e of G(2) x %d pair/triple documents from a pool of differently sized containers; scopes: %d binder/continuation expressions x %d documents; together: G(2) and the context-sensitive operators on mixed streams x every tuple of <= 3 of 6 documents evaluated together",
		len(sExprs), len(sDocs), len(bExprs), len(bDocs))
	reduced := 0
	var idx int64
	space := func(section string, exprs []*refsem.E, docs []*val.V) {
		for i, e := range exprs {
			idx++
			if !c.Mine(idx) {
				continue
			}
			if c.Expired() {
				break
			}
			text := e.String()
			parsed, err, pan := impl.Parse(text)
			if err != nil || pan != nil {
				c.Violation("parse-error:"+text, int64(i), exprCase{Expr: text, AST: e, Doc: "null", Kind: "parse-error"}, fmt.Sprintf("well-formed expression rejected: %v %v", err, pan))
				continue
			}
			nontrivialExpr := e.Op != "self"
			for _, d := range docs {
				r := compareCase(e, parsed, d, true)
				c.Eval(1)
				c.Count("evaluations_"+section, 1)
				c.Outcome(r.Outcome)
				switch r.Kind {
				case "":
					c.Validated(1)
					if r.Defined && nontrivialExpr {
						c.Nontrivial(text + "\x00" + d.JSON())
					}
					if r.Defined && i%9973 == 7 {
						c.Sample(map[string]string{"expr": text, "doc": d.JSON(), "results": r.Outcome})
					}
				case "undef":
					c.Count("undefined_by_reference", 1)
				default:
					c.Validated(1)
					c.Count("mismatch_"+r.Kind, 1)
					if reduced > 4000 {
						c.Count("mismatches_not_reduced", 1)
						c.Res.Exhaustive = false
						continue
					}
					reduced++
					re, rd := reduceCase(e, d, r.Kind, true)
					rp, _, _ := impl.Parse(re.String())
					rr := compareCase(re, rp, rd, true)
					c.Violation(r.Kind+":"+re.String(), int64(re.Size())*1000+int64(rd.Size()), exprCase{Expr: re.String(), AST: re, Doc: rd.YAMLFlow(), Kind: r.Kind},
						fmt.Sprintf("expr %q on %s: %s   (first seen as %q on %s)", re.String(), rd.JSON(), rr.Detail, text, d.JSON()))
				}
			}
		}
	}
	space("core", exprs, docs)
	space("streams", sExprs, sDocs)
	space("scopes", bExprs, bDocs)
	// documents evaluated together (eval-all): binary operators, `as` and `[...]` see the whole context at once when it consists of
	// such documents only, and node by node otherwise (a stream that mixes a whole document with one of its children)
	tExprs, tDocs := c01Together()
	for i, e := range tExprs {
		idx++
		if !c.Mine(idx) || c.Expired() {
			continue
		}
		text := e.String()
		parsed, err, pan := impl.Parse(text)
		if err != nil || pan != nil {
			c.Violation("parse-error:"+text, int64(i), exprCase{Expr: text, AST: e, Doc: "null", Kind: "parse-error"}, fmt.Sprintf("well-formed expression rejected: %v %v", err, pan))
			continue
		}
		for _, ds := range tDocs {
			r := compareCaseDocs(e, parsed, ds, true, true)
			c.Eval(1)
			c.Count("evaluations_together", 1)
			c.Outcome(r.Outcome)
			var texts []string
			for _, d := range ds {
				texts = append(texts, d.YAMLFlow())
			}
			switch r.Kind {
			case "":
				c.Validated(1)
				if r.Defined {
					c.Nontrivial(text + "\x00" + strings.Join(texts, "|"))
				}
			case "undef":
				c.Count("undefined_by_reference", 1)
			default:
				c.Validated(1)
				c.Count("mismatch_"+r.Kind, 1)
				c.Violation(r.Kind+":together:"+text, int64(e.Size())*1000+int64(len(ds)), exprCase{Expr: text, AST: e, Doc: "null", Kind: r.Kind, Together: texts},
					fmt.Sprintf("expr %q on documents [%s] evaluated together: %s", text, strings.Join(texts, " ; "), r.Detail))
			}
		}
	}
	return nil
}

// c01Together: expressions and document tuples for the eval-all section.
func c01Together() (exprs []*refsem.E, docs [][]*val.V) {
	var pool []*val.V
	for _, t := range []string{`{"a": 1, "b": 2}`, `{"a": [2], "b": [3]}`, `{"a": "x"}`, `[1, 2]`, `3`, `{"b": {"a": 1}}`} {
		pool = append(pool, fromJSONText(t))
	}
	for _, x := range pool {
		docs = append(docs, []*val.V{x})
		for _, y := range pool {
			docs = append(docs, []*val.V{x, y})
			for _, z := range pool[:3] {
				docs = append(docs, []*val.V{x, y, z})
			}
		}
	}
	exprs = append(exprs, refsem.CoreAlphabet(true).Enumerate(2)...)
	// the three operators on streams that mix whole documents with nodes below them, and on their own
	self, a, b := refsem.Leaf("self"), refsem.Key("a"), refsem.Key("b")
	var bodies []*refsem.E
	for _, op := range []string{"add", "mul", "eq", "alt", "and", "union"} {
		if op != "union" { // `. , .` is a listed finding of its own
			bodies = append(bodies, refsem.Bin(op, self, self))
		}
		bodies = append(bodies, refsem.Bin(op, a, b), refsem.Bin(op, self, a))
	}
	bodies = append(bodies, refsem.Un("collect", self), refsem.Un("collect", a), refsem.As(a, "x", refsem.Un("collect", refsem.Var("x"))), refsem.As(self, "x", refsem.Bin("add", refsem.Var("x"), self)))
	// a name bound again inside: the inner binding ends with its body, the outer one is read afterwards (documents evaluated
	// together are bound as one context, so are streams that turn out empty)
	x := refsem.Var("x")
	lit5, lit7 := refsem.Lit(val.IntV(5)), refsem.Lit(val.IntV(7))
	for _, src := range []*refsem.E{a, self, lit7, refsem.Leaf("splat")} {
		for _, body := range []*refsem.E{x, refsem.Bin("add", x, lit5), refsem.Un("collect", x)} {
			for _, binder := range []*refsem.E{refsem.As(src, "x", body), refsem.Reduce(src, "x", refsem.Lit(val.IntV(0)), refsem.Bin("add", self, x))} {
				for _, t := range []*refsem.E{
					// (`binder , $x` itself runs into the listed finding: both operands can hand back the variable's own list)
					refsem.Bin("union", binder, refsem.Un("collect", x)), refsem.Bin("add", binder, x), refsem.Bin("add", x, binder), refsem.Bin("pipe", refsem.Un("collect", binder), x),
					refsem.Bin("pipe", refsem.Un("select", binder), x), refsem.Bin("pipe", binder, x),
				} {
					for _, outer := range []*refsem.E{lit5, a} {
						bodies = append(bodies, refsem.As(outer, "x", t))
					}
				}
			}
		}
	}
	for _, body := range bodies {
		exprs = append(exprs, body)
		for _, stream := range []*refsem.E{refsem.Bin("union", self, a), refsem.Bin("union", a, self), refsem.Bin("union", a, b), refsem.Leaf("splat")} {
			exprs = append(exprs, refsem.Bin("pipe", stream, body))
		}
	}
	return
}

func exprReplay(checkDoc bool) func(raw json.RawMessage) (bool, string, error) {
	return func(raw json.RawMessage) (bool, string, error) {
		var cs exprCase
		if err := json.Unmarshal(raw, &cs); err != nil {
			return false, "", err
		}
		doc := fromJSONText(cs.Doc)
		parsed, err, pan := impl.Parse(cs.AST.String())
		if err != nil || pan != nil {
			return cs.Kind == "parse-error", fmt.Sprintf("parse: %v %v", err, pan), nil
		}
		if len(cs.Together) > 0 {
			var ds []*val.V
			for _, t := range cs.Together {
				ds = append(ds, fromJSONText(t))
			}
			r := compareCaseDocs(cs.AST, parsed, ds, true, checkDoc)
			if r.Kind == "" || r.Kind == "undef" {
				return false, "", nil
			}
			return true, fmt.Sprintf("expr %q on documents %v evaluated together: %s: %s", cs.AST.String(), cs.Together, r.Kind, r.Detail), nil
		}
		r := compareCase(cs.AST, parsed, doc, checkDoc)
		if r.Kind == "" || r.Kind == "undef" {
			return false, "", nil
		}
		return true, fmt.Sprintf("expr %q on %s: %s: %s", cs.AST.String(), cs.Doc, r.Kind, r.Detail), nil
	}
}

func init() {
	registerLater(func() {
		fw.Register(&fw.Check{
			ID: "C01", Level: "model_checking",
			Rule: "every AST with <= k nodes over the core operator alphabet x every JSON-model document with <= n nodes; the real evaluator (parser + DataTreeNavigator) is compared with the reference abstract machine on ordered results, " +
				"error/no-error and the document state afterwards; non-trivial = expression other than `.` whose reference result is defined, not an error and not empty; distinct by (expression text, document)",
			Assumptions: []string{"the reference machine (mc/internal/refsem) is my reading of doc/operators/*.md and how-it-works.md; points the documentation leaves open are Undef and not compared (counted as undefined_by_reference)",
				"expressions are printed fully parenthesised: precedence is C09's subject"},
			Budget: func(t string) time.Duration {
				if t == "thorough" {
					return 40 * time.Minute
				}
				return 4 * time.Minute
			},
			Run: c01Run, Replay: exprReplay(true),
		})
	})
}
