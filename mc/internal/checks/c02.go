package checks

import (
	"encoding/json"
	"fmt"
	"time"

	"verif/mc/internal/fw"
	"verif/mc/internal/impl"
	"verif/mc/internal/refsem"
	"verif/mc/internal/val"
)

// C02 – assignment obeys the update laws.
// Exhaustive exploration: documents x paths x values / update functions / compound operands.
// Oracles: (i) the whole resulting document equals the reference machine's (put, frame, creation, padding in one comparison);
// (ii) the laws evaluated on the implementation alone: put-get, put-put, get-put (`p |= .` and single-match `p = p`).

func c02Paths() []*refsem.E {
	pipe := func(es ...*refsem.E) *refsem.E {
		r := es[0]
		for _, e := range es[1:] {
			r = refsem.Bin("pipe", r, e)
		}
		return r
	}
	k, ix := refsem.Key, refsem.Idx
	one := refsem.Lit(val.IntV(1))
	return []*refsem.E{
		k("a"), k("b"), pipe(k("a"), k("b")), pipe(k("a"), k("a")), ix(0), ix(1), ix(-1), ix(2), pipe(k("a"), ix(0)), pipe(k("a"), ix(1)), pipe(ix(0), k("a")),
		refsem.Leaf("splat"), pipe(k("a"), refsem.Leaf("splat")), refsem.Bin("union", k("a"), k("b")),
		pipe(refsem.Leaf("splat"), refsem.Un("select", refsem.Bin("eq", k("a"), one)), k("b")),
		pipe(refsem.Leaf("splat"), refsem.Un("select", refsem.Un("has", refsem.Lit(val.StrV("a")))), k("b")),
		k("c"), pipe(k("c"), k("d")), pipe(k("c"), ix(1)), ix(3), pipe(ix(1), ix(0)), pipe(k("b"), ix(-1)),
		// several indices in one bracket: past the end and negative, in both orders
		refsem.Idxs(0, 1), refsem.Idxs(3, -1), refsem.Idxs(-1, 3), pipe(k("a"), refsem.Idxs(2, -1)), refsem.Idxs(1, 1),
	}
}

var c02ChainPaths = []*refsem.E{refsem.Key("a"), refsem.Key("b"), refsem.Key("c"), refsem.Idx(0), refsem.Idx(1)}
var c02ChainTails = []*refsem.E{refsem.Key("c"), refsem.Idx(0)}

func c02ChainSrc() []*refsem.E {
	return []*refsem.E{refsem.Lit(fromJSONText(`{"c": 2}`)), refsem.Lit(fromJSONText("[2, 3]")), refsem.Key("b"), refsem.Idx(0)}
}

func c02Values() []*refsem.E {
	lit := func(s string) *refsem.E { return refsem.Lit(fromJSONText(s)) }
	pipe := func(a, b *refsem.E) *refsem.E { return refsem.Bin("pipe", a, b) }
	return []*refsem.E{lit("null"), lit("2"), lit(`"z"`), lit("[]"), lit("{}"), lit("[2]"), lit(`{"c": 2}`), refsem.Key("b"), refsem.Key("a"),
		// sources read from elsewhere in the document by index, including the index just past the end (reading must not pad)
		pipe(refsem.Key("b"), refsem.Idx(0)), pipe(refsem.Key("b"), refsem.Idx(1)), refsem.Idx(0), refsem.Idx(1), refsem.Idx(2)}
}

func c02Funcs() []*refsem.E {
	self := refsem.Leaf("self")
	return []*refsem.E{
		refsem.Bin("add", self, refsem.Lit(val.IntV(1))), refsem.Bin("add", self, refsem.Lit(val.StrV("s"))), refsem.Un("collect", self), refsem.Leaf("length"),
		refsem.Bin("union", refsem.Lit(val.IntV(1)), refsem.Lit(val.IntV(2))), refsem.Un("select", refsem.Lit(val.BoolV(false))), self,
		// functions that yield nothing for some matches and something for others
		// (a literal, `. + 1` or `[.]` after an empty select would still yield something, so use operators that map nothing to nothing)
		refsem.Bin("pipe", refsem.Un("select", refsem.Bin("eq", self, refsem.Lit(val.IntV(1)))), refsem.Leaf("length")),
		refsem.Bin("pipe", refsem.Un("select", refsem.Bin("ne", self, refsem.Lit(val.IntV(1)))), refsem.Leaf("not")),
	}
}

type c02Case struct {
	Law  string    `json:"law"`
	Expr *refsem.E `json:"expr"`
	Alt  *refsem.E `json:"alt,omitempty"`
	Doc  string    `json:"doc"`
}

func c02Eval(e *refsem.E, doc *val.V) (string, bool) {
	p, err, pan := impl.Parse(e.String())
	if err != nil || pan != nil {
		return fmt.Sprintf("PARSE %v %v", err, pan), false
	}
	res, eerr, epan := impl.Eval(p, impl.Doc(doc))
	if epan != nil {
		return fmt.Sprintf("PANIC %v", epan), false
	}
	if eerr != nil {
		return "ERROR", true
	}
	var got []*val.V
	for _, r := range res {
		got = append(got, impl.ToV(r))
	}
	return vlist(got), true
}

// c02Check evaluates one law instance.
func c02Check(cs c02Case) (kind, detail string, defined bool) {
	doc := fromJSONText(cs.Doc)
	switch cs.Law {
	case "ref":
		p, err, pan := impl.Parse(cs.Expr.String())
		if err != nil || pan != nil {
			return "parse-error", fmt.Sprintf("%v %v", err, pan), false
		}
		r := compareCase(cs.Expr, p, doc, false)
		if r.Kind == "undef" {
			return "undef", r.Detail, false
		}
		return r.Kind, r.Detail, r.Defined
	case "put-put", "get-put":
		a, ok1 := c02Eval(cs.Expr, doc)
		b, ok2 := c02Eval(cs.Alt, doc)
		if !ok1 || !ok2 {
			return "panic", a + " / " + b, false
		}
		if a != b {
			return cs.Law, fmt.Sprintf("%q gives [%s] but %q gives [%s]", cs.Expr.String(), a, cs.Alt.String(), b), true
		}
		return "", "", a != "ERROR"
	case "put-get":
		// (p = v) | [p]  : every element read back equals v
		p, err, pan := impl.Parse(cs.Expr.String())
		if err != nil || pan != nil {
			return "parse-error", fmt.Sprintf("%v %v", err, pan), false
		}
		res, eerr, epan := impl.Eval(p, impl.Doc(doc))
		if epan != nil {
			return "panic", fmt.Sprint(epan), false
		}
		if eerr != nil {
			return "", "", false
		}
		want := cs.Alt.V.String()
		for _, r := range res {
			v := impl.ToV(r)
			for _, el := range v.Vals {
				if el.String() != want {
					return "put-get", fmt.Sprintf("%q reads back %s, assigned %s", cs.Expr.String(), v.String(), want), true
				}
			}
			if len(v.Vals) > 0 {
				defined = true
			}
		}
		return "", "", defined
	}
	return "undef", "", false
}

// c02Overlaps tells whether a source path reads a node that contains, or is contained in, a match of the target path
// (then "copy from elsewhere" is not from elsewhere and the laws do not apply).
func c02Overlaps(p, src *refsem.E, d *val.V) bool {
	cp := d.Copy()
	M := refsem.Run(p, []*val.V{cp}) // first: creating the target path may bring the source into existence
	S := refsem.RunRO(src, []*val.V{cp})
	if S.Undef != "" || S.Err != "" || M.Undef != "" || M.Err != "" {
		return true
	}
	var within func(root, x *val.V) bool
	within = func(root, x *val.V) bool {
		if root == x {
			return true
		}
		for _, c := range root.Vals {
			if within(c, x) {
				return true
			}
		}
		return false
	}
	for _, s := range S.Results {
		for _, m := range M.Results {
			if within(s, m) || within(m, s) {
				return true
			}
		}
	}
	return false
}

func c02Run(c *fw.Ctx) error {
	docs := val.Universe(3, val.Sigma(), []string{"a", "b"})
	if c.Thorough() {
		docs = val.Universe(4, val.Sigma(), []string{"a", "b"})
	}
	paths, vals, funcs := c02Paths(), c02Values(), c02Funcs()
	chainSources := c02ChainSrc()
	operands := []*refsem.E{refsem.Lit(val.IntV(1)), refsem.Lit(fromJSONText("[2]")), refsem.Lit(fromJSONText(`{"c": 2}`)), refsem.Key("b")}
	c.Res.Bound = fmt.Sprintf("%d documents x %d paths x (%d values + %d update functions + 3 compound operators x %d operands) + put-get/put-put/get-put law instances + bind-assign-assign-edit chains (4 sources x 20 path pairs x 2 tails x 2 places) + streams: `.[] | (p op e)` for 3 paths x 4 operands x 5 forms on all pairs (and x,y,x triples) of 6 maps + create-below-then-assign and assign-then-create-below (4 paths x 3 tails x 8 values)", len(docs), len(paths), len(vals), len(funcs), len(operands))
	var idx int64
	run := func(cs c02Case, order int64) {
		kind, detail, defined := c02Check(cs)
		c.Eval(1)
		switch kind {
		case "":
			c.Validated(1)
			if defined {
				key := cs.Law + cs.Expr.String() + cs.Doc
				c.Nontrivial(key)
				c.Outcome(key)
			}
		case "undef":
			c.Count("undefined_by_reference", 1)
		default:
			c.Validated(1)
			c.Count("mismatch_"+kind, 1)
			sigE := cs.Expr
			orig := cs.Expr.String() + " on " + cs.Doc
			defer func() { _ = orig }()
			if cs.Law == "ref" {
				detail = "(first seen: " + orig + ") " + detail
				re, rd := reduceCase(cs.Expr, fromJSONText(cs.Doc), kind, false)
				sigE = re
				cs.Expr, cs.Doc = re, rd.JSON()
				_, d2, _ := c02Check(cs)
				detail = d2 + " (first seen: " + orig + ")"
			}
			c.Violation(kind+":"+cs.Law+":"+sigE.String(), order, cs, fmt.Sprintf("%s on %s: %s", cs.Expr.String(), cs.Doc, detail))
		}
	}
	// streams: the update is applied to every node of a stream; what a match receives depends on the node it was reached from only
	{
		var pool []*val.V
		for _, t := range []string{`{"a": 1, "b": 2}`, `{"a": [2], "b": [3]}`, `{"a": "x", "b": "y"}`, `{"b": 5}`, `{"a": {"c": 2}, "b": {"d": 1}}`, `{"a": 3, "b": 4, "c": 5}`} {
			pool = append(pool, fromJSONText(t))
		}
		sp := []*refsem.E{refsem.Key("a"), refsem.Key("c"), refsem.Bin("union", refsem.Key("a"), refsem.Key("c"))}
		se := []*refsem.E{refsem.Key("b"), refsem.Lit(val.IntV(1)), refsem.Key("a"), refsem.Bin("add", refsem.Key("b"), refsem.Key("b"))}
		for xi, x := range pool {
			for yi, y := range pool {
				for _, doc := range []*val.V{val.SeqV(x.Copy(), y.Copy()), val.MapV(val.StrV("p"), x.Copy(), val.StrV("q"), y.Copy()), val.SeqV(x.Copy(), y.Copy(), x.Copy())} {
					idx++
					if !c.Mine(idx) {
						continue
					}
					for pi, p := range sp {
						for ei, e := range se {
							for oi, op := range []string{"addassign", "subassign", "mulassign", "assign", "update"} {
								upd := refsem.Bin(op, p, e)
								if op == "update" {
									upd = refsem.Bin(op, p, refsem.Bin("add", refsem.Leaf("self"), e))
								}
								run(c02Case{Law: "ref", Expr: refsem.Bin("pipe", refsem.Leaf("splat"), upd), Doc: doc.JSON()}, 5e6+int64(doc.Size())*1e3+int64(xi*100+yi*10+pi+ei+oi))
							}
						}
					}
				}
			}
		}
	}
	// a container that an earlier assignment created on the way is then itself assigned to (what it was made of must not show)
	{
		lit := func(t string) *refsem.E { return refsem.Lit(fromJSONText(t)) }
		for di, d := range docs {
			idx++
			if !c.Mine(idx) {
				continue
			}
			for pi, p := range []*refsem.E{refsem.Key("a"), refsem.Key("c"), refsem.Idx(0), refsem.Idx(1)} {
				for ti, tail := range []*refsem.E{refsem.Key("b"), refsem.Idx(0), refsem.Bin("pipe", refsem.Key("b"), refsem.Key("c"))} {
					for vi, v := range []*refsem.E{lit(`"5"`), lit(`"true"`), lit(`"null"`), lit(`"x"`), lit(`5`), lit(`[]`), lit(`{"k": "1"}`), lit(`null`)} {
						e := refsem.Bin("pipe", refsem.Bin("assign", refsem.Bin("pipe", p, tail), refsem.Lit(val.IntV(1))), refsem.Bin("assign", p, v))
						run(c02Case{Law: "ref", Expr: e, Doc: d.JSON()}, 6e6+int64(d.Size())*1e3+int64(pi*100+ti*10+vi))
						// and the other way round: a container is overwritten by v, then a path below it is created again
						// (nothing of what the container held may come back)
						e2 := refsem.Bin("pipe", refsem.Bin("assign", p, v), refsem.Bin("assign", refsem.Bin("pipe", p, tail), refsem.Lit(val.IntV(5))))
						run(c02Case{Law: "ref", Expr: e2, Doc: d.JSON()}, 6e6+int64(d.Size())*1e3+int64(pi*100+ti*10+vi)+1)
					}
				}
			}
			_ = di
		}
	}
	for di, d := range docs {
		for pi, p := range paths {
			idx++
			if !c.Mine(idx) {
				continue
			}
			if c.Expired() {
				return nil
			}
			order := int64(d.Size())*1e6 + int64(pi)*1000
			dj := d.JSON()
			// does traversing p create anything on this document? (the get-put law speaks about existing matches only)
			probe := d.Copy()
			pm := refsem.Run(p, []*val.V{probe})
			creates := pm.Undef != "" || pm.Err != "" || probe.String() != d.String()
			for vi, v := range vals {
				if v.Op != "lit" && c02Overlaps(p, v, d) {
					c.Count("skipped_source_overlaps_target", 1)
					continue
				}
				as := refsem.Bin("assign", p, v)
				run(c02Case{Law: "ref", Expr: as, Doc: dj}, order+int64(vi))
				if v.Op == "lit" {
					run(c02Case{Law: "put-get", Expr: refsem.Bin("pipe", as, refsem.Un("collect", p)), Alt: v, Doc: dj}, order+int64(vi))
					for _, v1 := range vals[:7] {
						run(c02Case{Law: "put-put", Expr: refsem.Bin("pipe", refsem.Bin("assign", p, v1), as), Alt: as, Doc: dj}, order+int64(vi))
					}
				}
			}
			for fi, f := range funcs {
				run(c02Case{Law: "ref", Expr: refsem.Bin("update", p, f), Doc: dj}, order+100+int64(fi))
			}
			// get-put: `p |= .` is the identity; `p = p` is the identity when p has at most one match and exists
			if !creates {
				run(c02Case{Law: "get-put", Expr: refsem.Bin("update", p, refsem.Leaf("self")), Alt: refsem.Leaf("self"), Doc: dj}, order+200)
			}
			if out := refsem.RunRO(p, []*val.V{d.Copy()}); !creates && out.Undef == "" && out.Err == "" && len(out.Results) == 1 {
				run(c02Case{Law: "get-put", Expr: refsem.Bin("assign", p, p), Alt: refsem.Leaf("self"), Doc: dj}, order+201)
			}
			for oi, o := range operands {
				for _, op := range []string{"addassign", "subassign", "mulassign"} {
					run(c02Case{Law: "ref", Expr: refsem.Bin(op, p, o), Doc: dj}, order+300+int64(oi))
				}
			}
			// one free-standing value bound to a variable, assigned to two places, then one of the places is edited:
			// the other place and the variable's source are outside the edited path (frame condition across assignments)
			if pi < len(c02ChainPaths) {
				p1 := c02ChainPaths[pi]
				for si, src := range chainSources {
					for qi, p2 := range c02ChainPaths {
						if qi == pi {
							continue
						}
						for ti, tail := range c02ChainTails {
							for wi, which := range []*refsem.E{p1, p2} {
								body := refsem.Bin("pipe", refsem.Bin("pipe", refsem.Bin("assign", p1, refsem.Var("v")), refsem.Bin("assign", p2, refsem.Var("v"))),
									refsem.Bin("assign", refsem.Bin("pipe", which, tail), refsem.Lit(val.IntV(7))))
								run(c02Case{Law: "ref", Expr: refsem.As(src, "v", body), Doc: dj}, order+400+int64(si*100+qi*10+ti*2+wi))
							}
						}
					}
				}
			}
			if di%37 == 5 && pi%7 == 2 {
				c.Sample(map[string]string{"doc": dj, "path": p.String(), "forms": fmt.Sprintf("p = v (%d values), p |= f (%d functions), p += -= *= e (%d operands), put-get, put-put, get-put, chains", len(vals), len(funcs), len(operands))})
			}
		}
	}
	return nil
}

func c02Replay(raw json.RawMessage) (bool, string, error) {
	var cs c02Case
	if err := json.Unmarshal(raw, &cs); err != nil {
		return false, "", err
	}
	kind, detail, _ := c02Check(cs)
	if kind == "" || kind == "undef" {
		return false, "", nil
	}
	return true, fmt.Sprintf("%s: %s on %s: %s", kind, cs.Expr.String(), cs.Doc, detail), nil
}

func init() {
	registerLater(func() {
		fw.Register(&fw.Check{
			ID: "C02", Level: "model_checking",
			Rule: "every document of U(n) x every path of the alphabet (keys, +/- indices, splats, unions, multi-match selections, paths to be created incl. padding) x every value / update function / compound operand: " +
				"the whole resulting document is compared with the reference machine's assignment (covers put, frame, auto-creation, null padding, back-to-front |=, first-result rule, op= as m op e), and the laws put-get, put-put, get-put are evaluated on the implementation alone; " +
				"non-trivial = distinct (law, expression, document) whose outcome is defined and not an error",
			Assumptions: []string{"reference: mc/internal/refsem (evUpdate); `p = p` is only required to be the identity for single-match paths (for multi-match paths the documented cross-product semantics assigns every result to every match)"},
			Budget: func(t string) time.Duration {
				if t == "thorough" {
					return 30 * time.Minute
				}
				return 3 * time.Minute
			},
			Run: c02Run, Replay: c02Replay,
		})
	})
}
