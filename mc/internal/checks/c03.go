package checks

import (
	"encoding/json"
	"fmt"
	"github.com/mikefarah/yq/v4/pkg/yqlib"
	"strings"
	"time"

	"verif/mc/internal/fw"
	"verif/mc/internal/impl"
	"verif/mc/internal/refsem"
	"verif/mc/internal/val"
)

// C03 – delete removes exactly the selected nodes and nothing else.
// Explicit-state search: states are containers reached by pipelines of derivation operators on the real evaluator
// (de-duplicated by the canonical node-graph dump); in every state every selection s is deleted by the real `del`,
// and compared with the reference deletion (by node identity) applied to the *value* of that state decoded afresh.

var c03Ops = []string{
	"sort", "sort_by(.a)", "reverse", "unique", ".[1:]", ".[:-1]", "map(.)", "map(select(. != 1))", "filter(. != 1)", "[.[]]",
	". + [9]", "[9] + .", "flatten", "group_by(.a)", "to_entries", "with_entries(.)", `pick(["a"])`, "pick([1, 0])", `omit(["a"])`, "omit([0])",
	".a", ".[0]", "(.a = (.a | sort))", "(.a |= reverse)", "(.b = .a)", "del(.[0])", "del(.a)", ". * {\"c\": [2, 1]}", "unique_by(.a)", "[.[] | select(. != 1)]",
	". - [1]", ".a - [0]", "(.a | keys)", "(.a + .b)", "map(.a)", "(.b = (.a | reverse))", "(.c = (.a | sort))", "(.b = (.a | .[1:]))", "(.c = [.a[]])", "(.b = [.a[]])", "(.b = (.a | map(.)))", "(.[0] = (.[1] | reverse))",
}

func c03Selections() []*refsem.E {
	one := refsem.Lit(val.IntV(1))
	sel := func(src *refsem.E, pred *refsem.E) *refsem.E {
		return refsem.Bin("pipe", src, refsem.Un("select", pred))
	}
	eq1 := refsem.Bin("eq", refsem.Leaf("self"), one)
	return []*refsem.E{
		refsem.Idx(0), refsem.Idx(1), refsem.Idx(-1), refsem.Key("a"), refsem.Key("ab"),
		refsem.Bin("union", refsem.Idx(0), refsem.Idx(2)), refsem.Bin("union", refsem.Idx(2), refsem.Idx(0)), refsem.Bin("union", refsem.Idx(0), refsem.Idx(0)),
		refsem.Bin("union", refsem.Key("a"), refsem.Key("b")), refsem.Bin("union", refsem.Key("b"), refsem.Key("a")),
		refsem.Leaf("splat"), sel(refsem.Leaf("splat"), eq1), sel(refsem.Leaf("rdesc"), eq1),
		sel(refsem.Leaf("splat"), refsem.Bin("eq", refsem.Key("a"), one)),
		refsem.Bin("pipe", refsem.Key("a"), refsem.Idx(0)), refsem.Bin("pipe", refsem.Idx(0), refsem.Key("a")),
		refsem.Bin("pipe", refsem.Idx(1), refsem.Idx(0)), refsem.Bin("union", refsem.Idx(10), refsem.Idx(2)),
		// entries of several elements at once (in a list put together from several sources their recorded paths can coincide)
		refsem.Bin("pipe", refsem.Leaf("splat"), refsem.Key("a")), refsem.Bin("union", refsem.Bin("pipe", refsem.Key("a"), refsem.Key("b")), &refsem.E{Op: "qkey", S: "a.b"}),
		// elements of a list that an earlier step stored under another key (their values may have been copied from a map's)
		refsem.Bin("pipe", refsem.Key("c"), refsem.Idx(0)), refsem.Bin("pipe", refsem.Key("b"), refsem.Bin("union", refsem.Idx(0), refsem.Idx(1))),
		// selections that yield the key node of an entry: the entry goes
		refsem.Un("keyof", refsem.Key("a")), refsem.Un("keyof", refsem.Bin("pipe", refsem.Key("a"), refsem.Key("b"))), refsem.Un("keyof", sel(refsem.Leaf("splat"), eq1)),
		sel(refsem.Leaf("rdesc3"), refsem.Bin("eq", refsem.Leaf("self"), refsem.Lit(val.StrV("a")))),
		refsem.Bin("union", refsem.Un("keyof", refsem.Key("a")), refsem.Key("b")),
		// a value computed from a node is not a node of the document: nothing is selected
		refsem.Bin("pipe", refsem.Key("a"), refsem.Leaf("length")), refsem.Bin("pipe", refsem.Idx(0), refsem.Leaf("length")),
	}
}

func c03Docs(tier string) []*val.V {
	var docs, enumerated []*val.V
	sc := []*val.V{val.IntV(1), val.IntV(0), val.StrV("a")}
	for _, d := range val.Universe(3, sc, []string{"a", "ab", "b"}) {
		if d.K == val.Seq || d.K == val.Map {
			enumerated = append(enumerated, d)
		}
	}
	// (the hand-written documents come first, the enumerated ones last: should the time budget end the search, it ends there)
	for _, h := range []string{
		`[3, 1, 2]`, `[[2, 1], [0]]`, `{"a": [3, 1, 2], "b": 1}`, `[{"a": 2}, {"a": 1}]`, `[{"a": 1, "b": 0}, {"a": 1}, {"a": 0}]`,
		`{"a": {"ab": 1, "a": 0}, "ab": [1]}`, `[1, [2, [3]], 1]`, `{"a": [{"a": 1}, {"a": 0}], "ab": 2}`, `[1, 0, 1, 0]`,
		// keys that are patterns for the traversal's matcher: a deleted entry is located by what it is, not by matching its key text
		`{"a*": 1, "ab": 0, "a": 0}`, `{"ab": 0, "a?": 1, "a": 1}`, `{"*": 0, "a": 1, "b": 0}`,
		`{"a": [{"a": 1, "b": 0}], "b": [{"a": 0}, {"a": 1, "b": 1}]}`, `[{"a": {"a": 1}}, {"a": {"a": 0, "b": 1}}]`, `{"a": {"b": 1}, "a.b": 0, "b": 1}`,
		`[0, 1, 2, 3, 4, 5, 6, 7, 8, 9, 10, 11]`, `{"a": [0, 1, 2, 3, 4, 5, 6, 7, 8, 9, 10, 11], "b": [1, 0]}`,
	} {
		docs = append(docs, fromJSONText(h))
	}
	// documents with anchors, aliases and merge keys: deleted from after explode(.) (which rebuilds the maps that merge)
	for _, h := range c03RawDocs {
		docs = append(docs, c03Raw(h))
	}
	return append(docs, enumerated...)
}

var c03RawDocs = []string{
	"b: &b {a: 1, ab: 0}\na: {<<: *b, b: 1}\nab: [*b, 1]\n",
	"- &m {a: 1, b: [1, 0]}\n- {<<: *m, ab: 1}\n- {ab: 0, <<: [*m]}\n",
	"a: &s [1, 0, 1]\nb: *s\nab: {a: *s, b: &t {a: 1}, c: {<<: *t}}\n",
}

// c03Raw: a document given as YAML text; its pipelines start with explode(.)
func c03Raw(text string) *val.V {
	v := fromJSONText(text)
	v.Raw = text
	return v
}

// c03LeafDocs are deleted from as decoded only (no derivation: several operators rebuild a map by key text, which would give a
// map with the same key twice - not a document): an integer key and a string key with the same text are two entries.
func c03LeafDocs() []*val.V {
	return []*val.V{fromJSONText(`{1: "a", "1": 1, "b": 0}`), fromJSONText(`{"0": 1, 0: 0, "b": [0]}`)}
}

// c03Text writes a document so that fromJSONText reads it back: JSON, with integer keys left unquoted.
func c03Text(v *val.V) string { return v.YAMLFlow() }

type c03Case struct {
	Doc      string    `json:"doc"`
	Pipe     []string  `json:"pipeline"`
	Sel      *refsem.E `json:"selection"`
	Together []string  `json:"documents_evaluated_together,omitempty"`
}

// c03Check deletes sel in the state reached by pipe on doc; returns mismatch kind ("" = agree, "undef").
func c03Check(doc *val.V, pipe []string, sel *refsem.E) (kind, detail string) {
	// the state's value, through the real evaluator
	stRes, _, err, pan := c16Eval(doc, pipe)
	if err != nil || pan != nil {
		return "undef", "state no longer reachable"
	}
	var stVals []*val.V
	for _, r := range stRes {
		stVals = append(stVals, impl.ToV(r))
	}
	delE := refsem.Un("del", sel)
	out := refsem.Run(delE, stVals)
	if out.Undef != "" {
		return "undef", out.Undef
	}
	full := append(append([]string{}, pipe...), delE.String())
	parsed, perr, ppan := impl.Parse(strings.Join(full, " | "))
	if perr != nil || ppan != nil {
		return "parse-error", fmt.Sprintf("%v %v", perr, ppan)
	}
	res, err, pan := impl.Eval(parsed, impl.Doc(doc))
	if pan != nil {
		return "panic", fmt.Sprint(pan)
	}
	if out.Err != "" {
		if err == nil {
			return "missing-error", "reference: " + out.Err
		}
		return "", ""
	}
	if err != nil {
		return "unexpected-error", fmt.Sprintf("yq: %v; reference [%s]", err, vlist(out.Results))
	}
	var got []*val.V
	for _, r := range res {
		got = append(got, impl.ToV(r))
	}
	if vlist(got) != vlist(out.Results) {
		return "wrong-deletion", fmt.Sprintf("state [%s]; yq leaves [%s]; deleting exactly the selected nodes leaves [%s]", vlist(stVals), vlist(got), vlist(out.Results))
	}
	return "", ""
}

// c03CheckTogether: several documents evaluated together (eval-all); whole documents can be among the selected nodes.
func c03CheckTogether(docs []*val.V, sel *refsem.E) (kind, detail string) {
	var in []*val.V
	var nodes []*yqlib.CandidateNode
	for i, d := range docs {
		in = append(in, d.Copy())
		n := impl.Doc(d)
		n.EvaluateTogether = true
		n.SetDocument(uint(i))
		nodes = append(nodes, n)
	}
	delE := refsem.Un("del", sel)
	out := refsem.Run(delE, in)
	if out.Undef != "" {
		return "undef", out.Undef
	}
	parsed, perr, ppan := impl.Parse(delE.String())
	if perr != nil || ppan != nil {
		return "parse-error", fmt.Sprintf("%v %v", perr, ppan)
	}
	res, err, pan := impl.Eval(parsed, nodes...)
	if pan != nil {
		return "panic", fmt.Sprint(pan)
	}
	if out.Err != "" {
		if err == nil {
			return "missing-error", "reference: " + out.Err
		}
		return "", ""
	}
	if err != nil {
		return "unexpected-error", fmt.Sprintf("yq: %v; reference [%s]", err, vlist(out.Results))
	}
	var got []*val.V
	for _, r := range res {
		got = append(got, impl.ToV(r))
	}
	if vlist(got) != vlist(out.Results) {
		return "wrong-deletion", fmt.Sprintf("documents [%s] evaluated together; yq leaves [%s]; deleting exactly the selected nodes leaves [%s]", vlist(in), vlist(got), vlist(out.Results))
	}
	return "", ""
}

func c03Run(c *fw.Ctx) error {
	c16Init()
	docs := c03Docs(c.Tier)
	nDerived := len(docs)
	docs = append(docs, c03LeafDocs()...)
	sels := c03Selections()
	maxDepth := 2
	if c.Thorough() {
		maxDepth = 3
	}
	c.Res.Bound = fmt.Sprintf("every state reached by <= %d of %d derivation operators from %d documents (plus 2 documents with an integer and a string key of the same text, as decoded) x %d selections; every triple of 5 documents evaluated together x 6 selections that can name whole documents", maxDepth, len(c03Ops), nDerived, len(sels))
	type st struct{ pipe []string }
	var order int64
	for di, doc := range docs {
		if !c.Mine(int64(di)) {
			continue
		}
		seen := map[uint64]bool{}
		frontier := []st{{nil}}
		if doc.Raw != "" {
			frontier = []st{{[]string{"explode(.)"}}}
		}
		for depth := 0; depth <= maxDepth; depth++ {
			var next []st
			for _, s := range frontier {
				if c.Expired() {
					break
				}
				res, root, err, pan := c16Eval(doc, s.pipe)
				c.Res.Transitions++
				if err != nil || pan != nil || len(res) == 0 {
					continue
				}
				key := fw.H(impl.Dump(true, append(res, root)...))
				if seen[key] {
					continue
				}
				seen[key] = true
				c.Res.States++
				// containers only
				cont := false
				for _, r := range res {
					if len(r.Content) > 0 {
						cont = true
					}
				}
				if cont {
					for _, sel := range sels {
						kind, detail := c03Check(doc, s.pipe, sel)
						c.Res.Evaluations++
						switch kind {
						case "":
							c.Validated(1)
							c.Nontrivial(fmt.Sprintf("%d/%x/%s", di, key, sel.String()))
							c.Outcome(fmt.Sprintf("%d/%x/%s", di, key, sel.String()))
							if order%5000 == 17 {
								c.Sample(map[string]interface{}{"doc": doc.JSON(), "pipeline": strings.Join(s.pipe, " | "), "delete": sel.String()})
							}
							order++
						case "undef":
							c.Count("undefined_by_reference", 1)
						default:
							c.Validated(1)
							producer := "decode"
							if len(s.pipe) > 0 {
								producer = s.pipe[len(s.pipe)-1]
							}
							order++
							sig := kind + "/after=" + producer + "/del(" + sel.String() + ")"
							for _, op := range s.pipe {
								if op == "(.a | keys)" {
									// one root cause whatever is deleted and whatever follows: the list holds the map's live key nodes
									sig = kind + "/list-returned-by-keys-of-a-map"
								}
							}
							c.Violation(sig, int64(len(s.pipe))*1e9+int64(doc.Size())*1e6+order%1e6,
								c03Case{Doc: c03Text(doc), Pipe: s.pipe, Sel: sel}, fmt.Sprintf("doc %s | %s | del(%s): %s", c03Text(doc), strings.Join(s.pipe, " | "), sel.String(), detail))
						}
					}
				}
				if depth < maxDepth && di < nDerived {
					for _, op := range c03Ops {
						next = append(next, st{append(append([]string{}, s.pipe...), op)})
					}
				}
			}
			frontier = next
		}
	}
	// several documents evaluated together: every triple over a small pool x selections that can name whole documents
	var pool []*val.V
	for _, t := range []string{`{"a": 1}`, `{"a": 0}`, `{"a": 1, "b": 1}`, `[1, 0]`, `1`} {
		pool = append(pool, fromJSONText(t))
	}
	one := refsem.Lit(val.IntV(1))
	tsels := []*refsem.E{
		refsem.Un("select", refsem.Bin("eq", refsem.Key("a"), one)), refsem.Un("select", refsem.Bin("eq", refsem.Leaf("self"), one)), refsem.Leaf("self"), refsem.Key("a"),
		refsem.Un("select", refsem.Bin("eq", refsem.Key("a"), refsem.Lit(val.IntV(0)))), refsem.Bin("pipe", refsem.Leaf("splat"), refsem.Un("select", refsem.Bin("eq", refsem.Leaf("self"), one))),
	}
	var tidx int64
	for _, x := range pool {
		for _, y := range pool {
			for _, z := range pool {
				tidx++
				if !c.Mine(tidx) || c.Expired() {
					continue
				}
				for _, sel := range tsels {
					ds := []*val.V{x, y, z}
					kind, detail := c03CheckTogether(ds, sel)
					c.Res.Evaluations++
					switch kind {
					case "":
						c.Validated(1)
						c.Nontrivial(fmt.Sprintf("together/%s|%s|%s/%s", x.JSON(), y.JSON(), z.JSON(), sel.String()))
					case "undef":
						c.Count("undefined_by_reference", 1)
					default:
						c.Validated(1)
						c.Violation(kind+"/documents-evaluated-together/del("+sel.String()+")", int64(x.Size()+y.Size()+z.Size()),
							c03Case{Sel: sel, Together: []string{x.JSON(), y.JSON(), z.JSON()}}, fmt.Sprintf("del(%s): %s", sel.String(), detail))
					}
				}
			}
		}
	}
	return nil
}

func c03Replay(raw json.RawMessage) (bool, string, error) {
	c16Init()
	var cs c03Case
	if err := json.Unmarshal(raw, &cs); err != nil {
		return false, "", err
	}
	if len(cs.Together) > 0 {
		var ds []*val.V
		for _, t := range cs.Together {
			ds = append(ds, fromJSONText(t))
		}
		kind, detail := c03CheckTogether(ds, cs.Sel)
		if kind == "" || kind == "undef" {
			return false, "", nil
		}
		return true, fmt.Sprintf("del(%s): %s: %s", cs.Sel.String(), kind, detail), nil
	}
	doc := fromJSONText(cs.Doc)
	if len(cs.Pipe) > 0 && cs.Pipe[0] == "explode(.)" {
		doc = c03Raw(cs.Doc)
	}
	kind, detail := c03Check(doc, cs.Pipe, cs.Sel)
	if kind == "" || kind == "undef" {
		return false, "", nil
	}
	return true, fmt.Sprintf("doc %s | %s | del(%s): %s: %s", cs.Doc, strings.Join(cs.Pipe, " | "), cs.Sel.String(), kind, detail), nil
}

func init() {
	registerLater(func() {
		fw.Register(&fw.Check{
			ID: "C03", Level: "model_checking",
			Rule: "explicit-state BFS over pipelines of derivation operators on the real evaluator (states de-duplicated by the canonical node-graph dump); in every container state every selection of the alphabet is deleted by the real `del` " +
				"and compared with the reference deletion-by-identity applied to the state's value decoded afresh (a state reached from elsewhere must behave like the same value reached from the initial state); non-trivial = distinct (state, selection) with a defined reference result",
			Assumptions: []string{"reference for selections and deletion: mc/internal/refsem (traversal, select, ==, union, del)", "the derivation operators themselves are not judged here (C01/C15/C16 do that); only what del does in the state they leave behind"},
			Budget: func(t string) time.Duration {
				if t == "thorough" {
					return 30 * time.Minute
				}
				return 3 * time.Minute
			},
			Run: c03Run, Replay: c03Replay,
		})
	})
}
