package checks

import (
	"encoding/json"
	"fmt"
	"strings"
	"time"

	"github.com/mikefarah/yq/v4/pkg/yqlib"

	"verif/mc/internal/fw"
	"verif/mc/internal/impl"
	"verif/mc/internal/refsem"
	"verif/mc/internal/val"
)

// C04 – deep merge computes the documented merge and leaves its operands untouched.
// Exhaustive conformance exploration over ordered pairs (triples for the reduce form) of nested maps x all 16 flag subsets.

var c04Flags = []string{"", "+", "d", "?", "n", "+?", "+n", "d?", "dn", "?n", "+d", "+?n", "d?n", "+d?", "+dn", "+d?n"}

func c04Maps(n int) []*val.V {
	var out []*val.V
	for _, d := range val.Universe(n, []*val.V{val.NullV(), val.IntV(1), val.StrV("s")}, []string{"a", "b", "c"}) {
		if d.K == val.Map && d.Depth() <= 3 {
			out = append(out, d)
		}
	}
	return out
}

type c04Case struct {
	Form  string   `json:"form"`
	Flags string   `json:"flags"`
	Docs  []string `json:"operands"`
}

func c04MulE(flags string, a, b *refsem.E) *refsem.E {
	return &refsem.E{Op: "mul", S: flags, A: []*refsem.E{a, b}}
}

// c04Check runs one case; returns mismatch kind ("" agree, "undef").
func c04Check(cs c04Case) (kind, detail string) {
	var ops []*val.V
	for _, d := range cs.Docs {
		ops = append(ops, fromJSONText(d))
	}
	switch cs.Form {
	case "binary":
		// {"x": a, "y": b}: [(.x * .y), .x, .y] – the merge, then what the operands read as afterwards
		doc := val.MapV(val.StrV("x"), ops[0].Copy(), val.StrV("y"), ops[1].Copy())
		e := refsem.Un("collect", refsem.Bin("union", c04MulE(cs.Flags, refsem.Key("x"), refsem.Key("y")), refsem.Bin("union", refsem.Key("x"), refsem.Key("y"))))
		parsed, err, pan := impl.Parse(e.String())
		if err != nil || pan != nil {
			return "parse-error", fmt.Sprintf("%s: %v %v", e.String(), err, pan)
		}
		// node-graph immutability of the document (in-process, no reference needed)
		root := impl.Doc(doc)
		before := impl.Dump(true, root)
		mulParsed, _, _ := impl.Parse(c04MulE(cs.Flags, refsem.Key("x"), refsem.Key("y")).String())
		_, merr, mpan := impl.Eval(mulParsed, root)
		if mpan != nil {
			return "panic", fmt.Sprint(mpan)
		}
		if after := impl.Dump(true, root); after != before && merr == nil {
			return "operand-modified", "evaluating x * y changed the node graph of the document:\n" + firstDiff(before, after)
		}
		r := compareCase(e, parsed, doc, false)
		if r.Kind == "" || r.Kind == "undef" {
			return r.Kind, r.Detail
		}
		return r.Kind, r.Detail
	case "root":
		// the operands are whole documents (nodes without a parent): `. * <b as a literal>` on document a, and
		// `select(di == 0) * select(di == 1)` on documents a, b evaluated together; the documents' node graphs must not change
		ref := refsem.Run(c04MulE(cs.Flags, refsem.Leaf("self"), &refsem.E{Op: "ref", V: ops[1].Copy()}), []*val.V{ops[0].Copy()})
		for variant := 0; variant < 2; variant++ {
			var nodes []*yqlib.CandidateNode
			var expr string
			if variant == 0 {
				nodes = []*yqlib.CandidateNode{impl.Doc(ops[0])}
				expr = c04MulE(cs.Flags, refsem.Leaf("self"), refsem.Lit(ops[1])).String()
			} else {
				for i, o := range ops {
					n := impl.Doc(o)
					n.EvaluateTogether = true
					n.SetDocument(uint(i))
					nodes = append(nodes, n)
				}
				expr = "select(di == 0) *" + cs.Flags + " select(di == 1)"
			}
			parsed, err, pan := impl.Parse(expr)
			if err != nil || pan != nil {
				return "parse-error", fmt.Sprintf("%s: %v %v", expr, err, pan)
			}
			before := impl.Dump(true, nodes...)
			res, eerr, epan := impl.Eval(parsed, nodes...)
			if epan != nil {
				return "panic", fmt.Sprint(epan)
			}
			if after := impl.Dump(true, nodes...); after != before && eerr == nil {
				return "operand-modified", fmt.Sprintf("evaluating %s changed the node graph of the input document(s):\n%s", expr, firstDiff(before, after))
			}
			if ref.Undef != "" {
				continue
			}
			if ref.Err != "" {
				if eerr == nil {
					return "missing-error", fmt.Sprintf("%s: reference %s", expr, ref.Err)
				}
				continue
			}
			if eerr != nil {
				return "unexpected-error", fmt.Sprintf("%s: yq: %v; reference %s", expr, eerr, ref.Results[0].String())
			}
			if len(res) != 1 || impl.ToV(res[0]).String() != ref.Results[0].String() {
				var got []*val.V
				for _, r := range res {
					got = append(got, impl.ToV(r))
				}
				return "value", fmt.Sprintf("%s: yq [%s]; reference %s", expr, vlist(got), ref.Results[0].String())
			}
		}
		if ref.Undef != "" {
			return "undef", ref.Undef
		}
		return "", ""
	case "anchored", "anchored-outside":
		// operands that hold anchors, aliases and merge keys (documents written by hand): evaluating the merge, in either
		// direction, must leave the node graph of the document as it was - whatever the result is
		docs, derr, dpan := impl.DecodeYAML(cs.Docs[0])
		if derr != nil || dpan != nil || len(docs) != 1 {
			return "undef", "hand-written document does not decode"
		}
		root := docs[0]
		before := impl.Dump(true, root)
		for _, expr := range []string{".x *" + cs.Flags + " .y", ".y *" + cs.Flags + " .x", "(.x *" + cs.Flags + " .y) as $m | .", ". *" + cs.Flags + " {\"x\": .y}"} {
			parsed, err, pan := impl.Parse(expr)
			if err != nil || pan != nil {
				return "parse-error", fmt.Sprintf("%s: %v %v", expr, err, pan)
			}
			_, _, epan := impl.Eval(parsed, root)
			if epan != nil {
				return "panic", fmt.Sprintf("%s: %v", expr, epan)
			}
			if after := impl.Dump(true, root); after != before {
				return "operand-modified", fmt.Sprintf("evaluating %s changed the node graph of the document:\n%s", expr, firstDiff(before, after))
			}
		}
		// identity: merging with an empty map reads as the operand itself reads
		for _, l := range []string{"x", "y"} {
			e := fmt.Sprintf("[(.%s *%s {}), .%s]", l, cs.Flags, l)
			parsed, perr, ppan := impl.Parse(e)
			if perr != nil || ppan != nil {
				continue
			}
			res, eerr, epan := impl.Eval(parsed, root)
			if eerr != nil || epan != nil || len(res) != 1 {
				continue
			}
			if v := impl.ToV(res[0]); len(v.Vals) == 2 && v.Vals[0].String() != v.Vals[1].String() {
				return "identity", fmt.Sprintf("(.%s *%s {}) reads %s but .%s reads %s", l, cs.Flags, v.Vals[0].String(), l, v.Vals[1].String())
			}
		}
		// frame: what the right operand does not mention reads in the result as it reads in the left operand
		// (documents whose sharing is by merge key only: an alias *is* the anchored node, so writing one of the two writes the other)
		for _, dir := range [][2]string{{"x", "y"}, {"y", "x"}} {
			if !strings.Contains(cs.Docs[0], "<<:") && !strings.Contains(cs.Docs[0], "#frame") {
				break
			}
			l, r := dir[0], dir[1]
			probe, _, _ := impl.Parse(fmt.Sprintf("(.%s | keys) - (.%s | keys) | .[]", l, r))
			ks, kerr, kpan := impl.Eval(probe, root)
			if kerr != nil || kpan != nil {
				continue
			}
			for _, k := range ks {
				e := fmt.Sprintf("[(.%s *%s .%s) | .[%q], .%s[%q]]", l, cs.Flags, r, k.Value, l, k.Value)
				parsed, perr, ppan := impl.Parse(e)
				if perr != nil || ppan != nil {
					continue
				}
				res, eerr, epan := impl.Eval(parsed, root)
				if eerr != nil || epan != nil || len(res) != 1 {
					continue
				}
				v := impl.ToV(res[0])
				if len(v.Vals) == 2 && v.Vals[0].String() != v.Vals[1].String() {
					return "frame", fmt.Sprintf("key %q of .%s is not mentioned by .%s, yet (.%s *%s .%s) reads %s there and .%s reads %s", k.Value, l, r, l, cs.Flags, r, v.Vals[0].String(), l, v.Vals[1].String())
				}
			}
		}
		return "", ""
	case "reduce":
		// N documents evaluated together: . as $i ireduce ({}; . * $i)  ==  left fold of the binary merge from {}
		expr := ". as $i ireduce ({}; . *" + cs.Flags + " $i)"
		parsed, err, pan := impl.Parse(expr)
		if err != nil || pan != nil {
			return "parse-error", fmt.Sprintf("%s: %v %v", expr, err, pan)
		}
		var nodes []*yqlib.CandidateNode
		for i, o := range ops {
			n := impl.Doc(o)
			n.EvaluateTogether = true
			n.SetDocument(uint(i))
			nodes = append(nodes, n)
		}
		res, eerr, epan := impl.Eval(parsed, nodes...)
		if epan != nil {
			return "panic", fmt.Sprint(epan)
		}
		// reference: left fold
		acc := val.MapV()
		for _, o := range ops {
			out := refsem.Run(c04MulE(cs.Flags, refsem.Leaf("self"), &refsem.E{Op: "ref", V: o.Copy()}), []*val.V{acc})
			if out.Undef != "" {
				return "undef", out.Undef
			}
			if out.Err != "" {
				if eerr == nil {
					return "missing-error", out.Err
				}
				return "", ""
			}
			acc = out.Results[0]
		}
		if eerr != nil {
			return "unexpected-error", fmt.Sprintf("yq: %v; reference %s", eerr, acc.String())
		}
		if len(res) != 1 || impl.ToV(res[0]).String() != acc.String() {
			var got []*val.V
			for _, r := range res {
				got = append(got, impl.ToV(r))
			}
			return "value", fmt.Sprintf("yq [%s]; left fold of the binary merge %s", vlist(got), acc.String())
		}
		// the inputs must be untouched
		for i, n := range nodes {
			if impl.ToV(n).String() != ops[i].String() {
				return "operand-modified", fmt.Sprintf("input document %d reads %s afterwards, was %s", i, impl.ToV(n).String(), ops[i].String())
			}
		}
		return "", ""
	case "identity":
		// a * {} = a, {} * a = a, a * a = a : no reference involved
		a := ops[0]
		for _, t := range []string{". *%s {}", "{} *%s .", ". *%s ."} {
			expr := fmt.Sprintf(t, cs.Flags)
			if t == "{} *%s ." && strings.ContainsAny(cs.Flags, "?") {
				continue // {} * a with "only existing keys" keeps {} by definition
			}
			parsed, err, pan := impl.Parse(expr)
			if err != nil || pan != nil {
				return "parse-error", fmt.Sprintf("%s: %v %v", expr, err, pan)
			}
			res, eerr, epan := impl.Eval(parsed, impl.Doc(a))
			if epan != nil {
				return "panic", fmt.Sprint(epan)
			}
			if eerr != nil {
				return "identity", fmt.Sprintf("%s on %s: error %v", expr, a.JSON(), eerr)
			}
			if len(res) != 1 || impl.ToV(res[0]).String() != a.String() {
				got := "nothing"
				if len(res) > 0 {
					got = impl.ToV(res[0]).String()
				}
				if strings.Contains(cs.Flags, "+") && t == ". *%s ." {
					continue // a *+ a appends sequences: not an identity by definition (judged against the reference below)
				}
				return "identity", fmt.Sprintf("%s on %s gives %s", expr, a.JSON(), got)
			}
		}
		// both operands are the very same node: the result is still what the reference computes for a and a copy of it
		for _, t := range []string{". *%s .", "(.a *%s .a)"} {
			in := a
			if t != ". *%s ." {
				in = val.MapV(val.StrV("a"), a.Copy())
			}
			self := refsem.Leaf("self")
			ref := refsem.Run(c04MulE(cs.Flags, self, &refsem.E{Op: "ref", V: a.Copy()}), []*val.V{a.Copy()})
			if ref.Undef != "" || ref.Err != "" || len(ref.Results) != 1 {
				continue
			}
			expr := fmt.Sprintf(t, cs.Flags)
			parsed, err, pan := impl.Parse(expr)
			if err != nil || pan != nil {
				return "parse-error", fmt.Sprintf("%s: %v %v", expr, err, pan)
			}
			res, eerr, epan := impl.Eval(parsed, impl.Doc(in))
			if epan != nil {
				return "panic", fmt.Sprint(epan)
			}
			if eerr != nil || len(res) != 1 {
				return "same-node", fmt.Sprintf("%s on %s: %d results, error %v; the merge of the value with itself is %s", expr, in.JSON(), len(res), eerr, ref.Results[0].String())
			}
			if got := impl.ToV(res[0]).String(); got != ref.Results[0].String() {
				return "same-node", fmt.Sprintf("%s on %s gives %s; the merge of the value with itself is %s", expr, in.JSON(), got, ref.Results[0].String())
			}
		}
		return "", ""
	}
	return "undef", "unknown form"
}

func c04Run(c *fw.Ctx) error {
	n, sn := 3, 2
	if c.Thorough() {
		n, sn = 4, 3
	}
	maps := c04Maps(n)
	small := c04Maps(sn)
	nEnum := len(maps)
	if !c.Thorough() {
		// a handful of deeper shapes so that the second nesting level is exercised on every change
		for _, h := range []string{`{"a": {"b": 1, "c": [1]}}`, `{"a": {"b": {"c": 1}}}`, `{"a": [1, {"b": 1}], "b": null}`, `{"a": {"b": null}, "c": "s"}`, `{"a": {"c": 1}, "b": [1, "s"]}`, `{"b": {"a": {}}, "a": {"b": []}}`,
			// a key that is a proper prefix of a later key (paths are compared as paths, not as text)
			`{"a": {"b": 1}, "ab": 1}`, `{"ab": "s"}`, `{"a": [1], "ab": [1, 1]}`, `{"ab": {"a": 1}, "b": null}`} {
			maps = append(maps, fromJSONText(h))
		}
	}
	// keys that would be patterns for the path matcher: in a merge they are the names of entries
	for _, h := range []string{`{"a*": 1, "ab": null}`, `{"ab": 1, "ac": "s"}`, `{"a?": [1], "*": null}`, `{"a": {"b*": 1, "bc": "s"}}`, `{"a": {"*": [1]}}`} {
		maps = append(maps, fromJSONText(h))
	}
	c.Res.Bound = fmt.Sprintf("all ordered pairs of %d maps (<= %d nodes, depth <= 3, keys a b c, leaves null 1 \"s\" and sequences) x 16 flag subsets (binary form on operands under keys, root form on whole documents (literal right operand; two documents evaluated together; quick: maps of <= 2 nodes and the hand-written deeper shapes), operand immutability, identities); 9 hand-written documents whose operands hold anchors, aliases, merge keys and anchor names defined again x 16 flag subsets x 4 expressions (node graph unchanged; merging with {} reads as the operand; keys the other operand does not mention read the same in the result); reduce form: all pairs and triples of %d maps (<= %d nodes) x 16 flags", len(maps), n, len(small), sn)
	var idx int64
	emit := func(cs c04Case, order int64) {
		kind, detail := c04Check(cs)
		c.Eval(1)
		key := cs.Form + cs.Flags + strings.Join(cs.Docs, "|")
		switch kind {
		case "":
			c.Validated(1)
			c.Nontrivial(key)
			c.Outcome(key)
		case "undef":
			c.Count("undefined_by_reference", 1)
			c.Count("undef: "+detail, 1)
		default:
			c.Validated(1)
			c.Count("mismatch_"+kind, 1)
			c.Violation(kind+"/"+cs.Form+"/flags="+cs.Flags, order, cs, fmt.Sprintf("%s form, flags %q, operands %s: %s", cs.Form, cs.Flags, strings.Join(cs.Docs, " ; "), detail))
		}
	}
	// (runs last: should the time budget end the enumeration, the hand-written documents and the reduce form are complete)
	pairs := func() {
		for i, a := range maps {
			for j, b := range maps {
				idx++
				if !c.Mine(idx) {
					continue
				}
				if c.Expired() {
					return
				}
				for _, f := range c04Flags {
					emit(c04Case{"binary", f, []string{a.JSON(), b.JSON()}}, int64(a.Size()+b.Size())*1e6+int64(i*len(maps)+j))
					if c.Thorough() || (a.Size() <= 2 || i >= nEnum) && (b.Size() <= 2 || j >= nEnum) {
						emit(c04Case{"root", f, []string{a.JSON(), b.JSON()}}, int64(a.Size()+b.Size())*1e6+int64(i*len(maps)+j))
					}
				}
				if idx%4001 == 1 {
					c.Sample(map[string]string{"form": "binary", "a": a.JSON(), "b": b.JSON(), "flags": "all 16"})
				}
			}
			if c.Mine(int64(i)) {
				for _, f := range c04Flags {
					emit(c04Case{"identity", f, []string{a.JSON()}}, int64(a.Size())*1e6+int64(i))
				}
			}
		}
	}
	for hi, h := range []string{
		"x: {base: &b {p: 1, r: 5}, child: {<<: *b, q: 2}}\ny: {child: {p: 9, r: 6, s: 7}}\n",
		"x: &x {p: 1, n: {k: 1}}\ny: {<<: *x, q: 2, n: {k: 2, j: 3}}\n",
		"x: {a: &s [1, 2], b: *s}\ny: {a: [0], b: [3]}\n",
		"x: {a: &m {k: 1}, b: *m, c: {d: *m}}\ny: {b: {k: 2, n: 3}, c: {d: {k: 4}}}\n",
		"x: {l: [&e {k: 1}, *e]}\ny: {l: [{k: 2}, {j: 3}]}\n",
		// an anchor name defined again: an alias means the latest definition in front of it (#frame: the operands share no key)
		"x: {p: &a {k: 1}, q: *a, r: &a {k: 2}, s: *a} #frame\ny: {t: 5}\n",
		"x: {p: &a [1], q: *a, r: {u: &a [2], v: *a}} #frame\ny: {t: {p: 1}}\n",
		// the anchor lies outside the operand
		"m: &m {k: 1}\nx: {b: *m}\ny: {b: {k: 2, n: 3}}\n",
		"s: &s [1, 2]\nx: {b: *s}\ny: {b: [3]}\n",
	} {
		idx++
		if !c.Mine(idx) {
			continue
		}
		form := "anchored"
		if strings.HasPrefix(h, "m:") || strings.HasPrefix(h, "s:") {
			form = "anchored-outside"
		}
		for _, f := range c04Flags {
			emit(c04Case{form, f, []string{h}}, 9e6+int64(hi))
		}
	}
	for i, a := range small {
		for j, b := range small {
			idx++
			if !c.Mine(idx) {
				continue
			}
			if c.Expired() {
				return nil
			}
			for _, f := range c04Flags {
				emit(c04Case{"reduce", f, []string{a.JSON(), b.JSON()}}, int64(a.Size()+b.Size())*1e6+int64(i*len(small)+j))
				for _, d := range small {
					emit(c04Case{"reduce", f, []string{a.JSON(), b.JSON(), d.JSON()}}, int64(a.Size()+b.Size()+d.Size())*1e6+int64(i*len(small)+j))
				}
			}
		}
	}
	pairs()
	return nil
}

func c04Replay(raw json.RawMessage) (bool, string, error) {
	var cs c04Case
	if err := json.Unmarshal(raw, &cs); err != nil {
		return false, "", err
	}
	kind, detail := c04Check(cs)
	if kind == "" || kind == "undef" {
		return false, "", nil
	}
	return true, fmt.Sprintf("%s form flags=%q operands %s: %s: %s", cs.Form, cs.Flags, strings.Join(cs.Docs, " ; "), kind, detail), nil
}

func init() {
	registerLater(func() {
		fw.Register(&fw.Check{
			ID: "C04", Level: "model_checking",
			Rule: "all ordered pairs (a, b) of nested maps up to the node bound x all 16 subsets of the flags + d ? n: `[(.x * .y), .x, .y]` on {x: a, y: b} against the reference merge, node-graph dump of the document unchanged by `.x * .y`, the same with whole documents as operands (`. * <literal b>` on a; `select(di == 0) * select(di == 1)` on a, b evaluated together), " +
				"identities a*{} = a, {}*a = a, a*a = a; all pairs and triples of the smaller maps through `. as $i ireduce ({}; . * $i)` on documents evaluated together against the left fold of the reference; non-trivial = distinct case with a defined reference result",
			Assumptions: []string{"reference merge: mc/internal/refsem/update.go (Merge); the region the property leaves open (map-vs-non-map or sequence-vs-scalar conflict with + ? n, and + with d) is Undef"},
			Budget: func(t string) time.Duration {
				if t == "thorough" {
					return 40 * time.Minute
				}
				return 3 * time.Minute
			},
			Run: c04Run, Replay: c04Replay,
		})
	})
}
