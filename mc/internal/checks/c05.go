package checks

import (
	"bytes"
	"encoding/json"
	"fmt"
	"regexp"
	"strings"
	"time"

	"github.com/mikefarah/yq/v4/pkg/yqlib"
	yaml "gopkg.in/yaml.v3"

	"verif/mc/internal/fw"
	"verif/mc/internal/impl"
	"verif/mc/internal/val"
	"verif/mc/internal/yamlgen"
)

// C05 – YAML in, YAML out: the identity expression preserves data and presentation.
// Generator with ground truth (abstract layout trees rendered to text) enumerating every shape up to the node bound
// x every set of <= d decorations; the real decode -> `.` -> print path; the output is read with yaml.v3's Node API
// directly (not through yq's conversion code) and compared with the same reading of the input and with the ground truth.

type c05Deco struct {
	Path  []int  `json:"path"`  // position: child indices from the root; -1-i = key of entry i
	Kind  string `json:"kind"`  // style | text | tag | anchor | head | line | foot | flow
	Param string `json:"param"` // style name / text / tag / comment
}

type c05Case struct {
	Shape  string    `json:"shape"` // JSON of the undecorated value
	Decos  []c05Deco `json:"decorations"`
	Stream string    `json:"stream"` // "" | explicit-start | lead-comment | two-docs | three-docs | lead-comment-start
}

var c05Texts = []string{"", " lead", "trail ", "a: b", "a #b", "- a", "#", "'", "\"", "\\", "é", "tab\there", "1", "1.0", "true", "null", "~", "yes", "0x1f", "1_000", "*a", "&a", "!a", "%a", "?", "[a]", "{a}", "|", ">", "@a", "a\nb", "2021-01-01", "<<", "😀", "k: v # c"}

func c05At(root *yamlgen.L, path []int) *yamlgen.L {
	n := root
	for _, p := range path {
		if p < 0 {
			n = n.Keys[-1-p]
		} else {
			n = n.Kids[p]
		}
	}
	return n
}

// c05Options lists every single decoration applicable to the layout.
func c05Options(root *yamlgen.L) []c05Deco {
	var out []c05Deco
	var walk func(n *yamlgen.L, path []int, inFlow bool, isKey bool)
	walk = func(n *yamlgen.L, path []int, inFlow bool, isKey bool) {
		p := append([]int{}, path...)
		if n.Kind == val.Seq || n.Kind == val.Map {
			if len(n.Kids) > 0 && !inFlow {
				out = append(out, c05Deco{p, "flow", ""})
			}
			if len(path) > 0 {
				out = append(out, c05Deco{p, "anchor", "x"})
			}
			if !inFlow {
				// a comment behind a collection written on one line (flow style, or empty): `k: [1, 2] # c`
				out = append(out, c05Deco{p, "line", "line c"})
			}
			for i, c := range n.Kids {
				if n.Kind == val.Map {
					walk(n.Keys[i], append(append([]int{}, p...), -1-i), inFlow, true)
				}
				walk(c, append(append([]int{}, p...), i), inFlow, false)
			}
			return
		}
		// scalars
		for _, st := range []string{"single", "double", "literal", "folded", "literal-leadblank", "literal-gap"} {
			if strings.HasPrefix(st, "literal") || st == "folded" {
				if isKey || inFlow {
					continue
				}
			}
			if st == "literal-leadblank" || st == "literal-gap" {
				out = append(out, c05Deco{p, "style", st})
				continue
			}
			txt := n.Text
			if st == "literal" {
				txt = "line one\nline two\n"
			}
			if st == "folded" {
				txt = "folded text\n"
			}
			if yamlgen.StyleLegal(st, txt) {
				out = append(out, c05Deco{p, "style", st})
			}
		}
		for _, t := range c05Texts {
			out = append(out, c05Deco{p, "text", t})
		}
		if !isKey {
			out = append(out, c05Deco{p, "tag", "!!str"}, c05Deco{p, "tag", "!custom"})
			if len(path) > 0 {
				out = append(out, c05Deco{p, "anchor", "x"})
			}
		}
		if !inFlow {
			if !isKey {
				out = append(out, c05Deco{p, "line", "line c"})
				if len(path) > 0 {
					out = append(out, c05Deco{p, "head", "head c"}, c05Deco{p, "foot", "foot c"})
				}
			} else {
				out = append(out, c05Deco{p, "head", "key head"})
			}
		}
	}
	walk(root, nil, false, false)
	out = append(out, c05Deco{nil, "head", "doc head"}, c05Deco{nil, "foot", "doc foot"})
	return out
}

func c05Apply(root *yamlgen.L, d c05Deco) bool {
	n := c05At(root, d.Path)
	switch d.Kind {
	case "flow":
		n.Style = "flow"
	case "style":
		if n.Style != "" && n.Style != "double" {
			return false
		}
		switch d.Param {
		case "literal-leadblank":
			// a literal block whose first line is blank
			n.Kind, n.Text = val.Str, "\nafter a blank line\n"
			d.Param = "literal"
		case "literal-gap":
			n.Kind, n.Text = val.Str, "para one\n\npara two\n"
			d.Param = "literal"
		case "literal":
			n.Kind, n.Text = val.Str, "line one\nline two\n"
		case "folded":
			n.Kind, n.Text = val.Str, "folded text\n"
		}
		if !yamlgen.StyleLegal(d.Param, n.Text) {
			return false
		}
		n.Style = d.Param
	case "text":
		n.Kind, n.Text = val.Str, d.Param
		n.Style = ""
		for _, st := range []string{"", "single", "double"} {
			if yamlgen.StyleLegal(st, d.Param) {
				n.Style = st
				break
			}
		}
	case "tag":
		if n.Tag != "" {
			return false
		}
		n.Tag = d.Param
	case "anchor":
		if n.Anchor != "" {
			return false
		}
		n.Anchor = d.Param
		// an alias to it as the last entry of the root collection
		if root.Kind == val.Seq {
			root.Kids = append(root.Kids, &yamlgen.L{Alias: d.Param})
		} else if root.Kind == val.Map {
			root.Keys = append(root.Keys, &yamlgen.L{Kind: val.Str, Text: "zz"})
			root.Kids = append(root.Kids, &yamlgen.L{Alias: d.Param})
		} else {
			return false
		}
	case "head":
		if n.Head != "" {
			return false
		}
		n.Head = d.Param
	case "line":
		if n.Line != "" || n.Style == "literal" || n.Style == "folded" {
			return false
		}
		if (n.Kind == val.Seq || n.Kind == val.Map) && n.Style != "flow" && len(n.Kids) > 0 {
			return false // a block collection has no line of its own
		}
		n.Line = d.Param
	case "foot":
		if n.Foot != "" {
			return false
		}
		n.Foot = d.Param
	}
	return true
}

func (cs c05Case) build() (docs []*yamlgen.L, text string, ok bool) {
	base := yamlgen.FromV(fromJSONText(cs.Shape))
	for _, d := range cs.Decos {
		if !c05Apply(base, d) {
			return nil, "", false
		}
	}
	// block scalars and comments cannot live inside flow collections: the renderer downgrades them; keep ground truth honest
	one := yamlgen.Render(base)
	switch cs.Stream {
	case "":
		return []*yamlgen.L{base}, one, true
	case "explicit-start":
		return []*yamlgen.L{base}, "---\n" + one, true
	case "lead-comment":
		return []*yamlgen.L{base}, "# leading block\n# second line\n\n" + one, true
	case "lead-comment-start":
		return []*yamlgen.L{base}, "# leading block\n---\n" + one, true
	case "bom-lead-comment":
		// a byte order mark in front of a header of two comment paragraphs
		return []*yamlgen.L{base}, "\ufeff# leading block\n\n# second line\n" + one, true
	case "indented-lead-comment":
		return []*yamlgen.L{base}, "    # leading block\n\n    # second line\n" + one, true
	case "two-docs":
		other := yamlgen.FromV(fromJSONText(`{"o": 1}`))
		return []*yamlgen.L{base, other}, one + "---\n" + yamlgen.Render(other), true
	case "huge-lead-comment":
		// one header line longer than any fixed-size line buffer (64 KiB)
		return []*yamlgen.L{base}, "# " + strings.Repeat("long header ", 6000) + "\n# leading block\n---\n" + one, true
	case "three-docs":
		other := yamlgen.FromV(fromJSONText(`[2]`))
		return []*yamlgen.L{other, base, other}, yamlgen.Render(other) + "---\n" + one + "---\n# c between\n" + yamlgen.Render(other), true
	}
	return nil, "", false
}

// c05Nodes parses a stream with yaml.v3's Node API.
func c05Nodes(text string) ([]*yaml.Node, error) {
	dec := yaml.NewDecoder(strings.NewReader(text))
	var out []*yaml.Node
	for {
		var n yaml.Node
		err := dec.Decode(&n)
		if err != nil {
			if err.Error() == "EOF" {
				return out, nil
			}
			return out, err
		}
		out = append(out, &n)
	}
}

// c05Attrs renders a document as a stream of tokens in document order: N(node attributes), C(comment on its own line),
// L(line comment). Which neighbouring node a free-standing comment is attached to is not part of the comparison (the
// parser decides that from blank lines, which are not presentation the property names); its place in the order is.
func c05Attrs(n *yaml.Node, sb *strings.Builder, depth int) {
	if n == nil || depth > 50 {
		return
	}
	cm := func(kind, text string) {
		for _, ln := range strings.Split(strings.TrimSpace(text), "\n") {
			if strings.TrimSpace(ln) != "" {
				fmt.Fprintf(sb, "\x00%s(%s)", kind, strings.TrimSpace(ln))
			}
		}
	}
	if n.Kind == yaml.DocumentNode {
		// whether a header comment belongs to the document or to its root node is attachment, not order
		sb.WriteString("\x00DOC")
	}
	// a block collection has no text of its own: a comment in front of it and a comment in front of its first entry are the same place
	blockColl := (n.Kind == yaml.SequenceNode || n.Kind == yaml.MappingNode) && n.Style&yaml.FlowStyle == 0 && len(n.Content) > 0
	cm("C", n.HeadComment)
	if n.Kind != yaml.DocumentNode {
		alias := ""
		if n.Alias != nil {
			alias = n.Alias.Anchor
		}
		mark := "N"
		if blockColl {
			mark = "NB"
		}
		fmt.Fprintf(sb, "\x00%s(k%d t=%s v=%q st=%d a=%q al=%q)", mark, n.Kind, n.ShortTag(), n.Value, n.Style, n.Anchor, alias)
	}
	cm("L", n.LineComment)
	if n.Kind == yaml.MappingNode {
		// the foot comment of an entry is stored on its key node but stands after the value in the text
		for i := 0; i+1 < len(n.Content); i += 2 {
			k := *n.Content[i]
			foot := k.FootComment
			k.FootComment = ""
			c05Attrs(&k, sb, depth+1)
			c05Attrs(n.Content[i+1], sb, depth+1)
			cm("C", foot)
		}
	} else {
		for _, c := range n.Content {
			c05Attrs(c, sb, depth+1)
		}
	}
	cm("C", n.FootComment)
}

// c05Canon: a block collection has no text of its own, so a comment in front of it and a comment in front of its first entry
// stand at the same place; the collection's token is moved in front of the comments that directly precede it.
func c05Canon(stream string) string {
	toks := strings.Split(stream, "\x00")
	for changed := true; changed; {
		changed = false
		for i := 1; i < len(toks); i++ {
			if strings.HasPrefix(toks[i], "NB(") && strings.HasPrefix(toks[i-1], "C(") {
				toks[i], toks[i-1] = toks[i-1], toks[i]
				changed = true
			}
		}
	}
	return strings.Join(toks, " ")
}

func c05NodeToV(n *yaml.Node, depth int) *val.V {
	if n == nil || depth > 50 {
		return val.StrV("<nil>")
	}
	switch n.Kind {
	case yaml.DocumentNode:
		if len(n.Content) == 0 {
			return val.NullV()
		}
		return c05NodeToV(n.Content[0], depth+1)
	case yaml.AliasNode:
		return c05NodeToV(n.Alias, depth+1)
	case yaml.SequenceNode:
		v := &val.V{K: val.Seq}
		for _, c := range n.Content {
			v.Vals = append(v.Vals, c05NodeToV(c, depth+1))
		}
		return v
	case yaml.MappingNode:
		v := &val.V{K: val.Map}
		for i := 0; i+1 < len(n.Content); i += 2 {
			v.Keys = append(v.Keys, c05NodeToV(n.Content[i], depth+1))
			v.Vals = append(v.Vals, c05NodeToV(n.Content[i+1], depth+1))
		}
		return v
	}
	switch n.ShortTag() {
	case "!!null":
		return val.NullV()
	case "!!bool":
		return &val.V{K: val.Bool, S: strings.ToLower(n.Value)}
	case "!!int":
		return &val.V{K: val.Int, S: n.Value}
	case "!!float":
		return &val.V{K: val.Float, S: n.Value}
	case "!!str":
		return val.StrV(n.Value)
	}
	return val.StrV(n.ShortTag() + " " + n.Value)
}

func c05Identity(text string) (string, error, interface{}) {
	var buf bytes.Buffer
	var err error
	var pan interface{}
	func() {
		defer func() {
			if r := recover(); r != nil {
				pan = r
			}
		}()
		pr := yqlib.NewPrinter(yqlib.NewYamlEncoder(impl.YamlPrefs()), yqlib.NewSinglePrinterWriter(&buf))
		_, err = yqlib.NewStreamEvaluator().Evaluate("in.yml", strings.NewReader(text), c15Expr("."), pr, yqlib.NewYamlDecoder(impl.YamlPrefs()))
	}()
	return buf.String(), err, pan
}

// c05Check returns (kind, detail); kind "" = holds, "unsure" = the generator's own rendering is not what it thinks.
func c05Check(cs c05Case) (kind, detail string) {
	if strings.HasPrefix(cs.Stream, "hand:") {
		for _, h := range c05Hand {
			if h.name == strings.TrimPrefix(cs.Stream, "hand:") {
				in, err := c05Nodes(h.text)
				if err != nil {
					return "unsure", "hand-written text is not valid YAML: " + err.Error()
				}
				return c05JudgeText(h.text, in, false)
			}
		}
		return "", ""
	}
	if strings.HasPrefix(cs.Stream, "fully-decorated:") {
		return c05Full(fromJSONText(cs.Shape), strings.TrimPrefix(cs.Stream, "fully-decorated:"))
	}
	docs, text, ok := cs.build()
	if !ok {
		return "skip", ""
	}
	inNodes, err := c05Nodes(text)
	if err != nil {
		return "unsure", "generated text is not valid YAML: " + err.Error()
	}
	if len(inNodes) != len(docs) {
		return "unsure", "generated text has another number of documents"
	}
	// the generator's ground truth must be what an independent reading of its own text gives
	for i, d := range docs {
		anchors := map[string]*yamlgen.L{}
		d.Anchors(anchors)
		if want, got := d.Value(anchors).String(), c05NodeToV(inNodes[i], 0).String(); want != got {
			return "unsure", fmt.Sprintf("ground truth %s but the text reads %s", want, got)
		}
	}
	rootScalar := false
	for _, d := range docs {
		if d.Alias == "" && d.Kind != val.Seq && d.Kind != val.Map {
			rootScalar = true
		}
	}
	return c05JudgeText(text, inNodes, rootScalar)
}

// c05JudgeText: the statement's clauses on one input text that the independent reader has read as inNodes.
func c05JudgeText(text string, inNodes []*yaml.Node, rootScalar bool) (kind, detail string) {
	out, yerr, pan := c05Identity(text)
	if pan != nil {
		return "panic", fmt.Sprintf("%v on\n%s", pan, text)
	}
	if yerr != nil {
		return "rejected", fmt.Sprintf("yq rejects a valid stream: %v\n%s", yerr, text)
	}
	outNodes, err := c05Nodes(out)
	if err != nil {
		return c05Tag("output-invalid", rootScalar), fmt.Sprintf("output is not valid YAML (%v):\n%s--- from input\n%s", err, out, text)
	}
	if len(outNodes) != len(inNodes) {
		return c05Tag("document-count", rootScalar), fmt.Sprintf("%d documents in, %d out:\n%s--- from input\n%s", len(inNodes), len(outNodes), out, text)
	}
	for i := range inNodes {
		if w, g := c05NodeToV(inNodes[i], 0).String(), c05NodeToV(outNodes[i], 0).String(); w != g {
			return c05Tag("data", rootScalar), fmt.Sprintf("document %d reads %s, was %s\noutput:\n%s--- input:\n%s", i, g, w, out, text)
		}
		var a, b strings.Builder
		c05Attrs(inNodes[i], &a, 0)
		c05Attrs(outNodes[i], &b, 0)
		if as, bs := c05Canon(a.String()), c05Canon(b.String()); as != bs {
			// a block scalar whose first line is blank cannot be written in block style by the emitter (it drops the line); it comes
			// back double-quoted. If that style is the only difference it is reported under one signature of its own.
			norm := regexp.MustCompile(`(v="\\n[^"]*(?:\\.[^"]*)*") st=\d+`)
			if norm.ReplaceAllString(as, "$1 st=*") == norm.ReplaceAllString(bs, "$1 st=*") {
				return "presentation-leadblank", fmt.Sprintf("document %d: a block scalar whose first line is blank comes back double-quoted\n in: %s\nout: %s\noutput:\n%s--- input:\n%s", i, as, bs, out, text)
			}
			return c05Tag("presentation", rootScalar), fmt.Sprintf("document %d attributes differ\n in: %s\nout: %s\noutput:\n%s--- input:\n%s", i, as, bs, out, text)
		}
	}
	// every comment of the input is in the output exactly as often
	for _, c := range []string{"# head c", "# line c", "# foot c", "# key head", "# doc head", "# doc foot", "# leading block", "# second line", "# c between"} {
		if strings.Count(text, c) != strings.Count(out, c) {
			return c05Tag("comment-lost", rootScalar), fmt.Sprintf("comment %q occurs %d times in the input and %d times in the output\noutput:\n%s--- input:\n%s", c, strings.Count(text, c), strings.Count(out, c), out, text)
		}
	}
	// a start marker is a line that is `---` or begins with `--- ` (what follows on the line may move to a line of its own)
	markers := func(s string) (first bool, n int) {
		for i, l := range strings.Split(s, "\n") {
			if l == "---" || strings.HasPrefix(l, "--- ") {
				if i == 0 {
					first = true
				} else {
					n++
				}
			}
		}
		return
	}
	inFirst, inN := markers(text)
	outFirst, outN := markers(out)
	if inFirst != outFirst || inN != outN {
		return c05Tag("separators", rootScalar), fmt.Sprintf("document separators differ\noutput:\n%s--- input:\n%s", out, text)
	}
	out2, err2, pan2 := c05Identity(out)
	if pan2 != nil || err2 != nil || out2 != out {
		return c05Tag("not-idempotent", rootScalar), fmt.Sprintf("second pass differs (%v %v)\nfirst:\n%ssecond:\n%s", err2, pan2, out, out2)
	}
	return "", ""
}

// c05Hand: documents with constructs the layout generator does not produce.
var c05Hand = []struct{ name, text string }{
	{"merge-key-single", "base: &b {x: 1}\nderived:\n  <<: *b\n  y: 2\n"},
	{"merge-key-list", "a: &a {x: 1}\nb: &b {y: 2}\nc:\n  <<: [*a, *b]\n  z: 3\n"},
	{"literal-keep", "k: |+\n  text\n\nn: 1\n"},
	{"literal-strip", "k: |-\n  text\nn: 1\n"},
	{"literal-indented", "k: |2\n   three spaces\n  two\nn: 1\n"},
	{"folded-paragraphs", "k: >\n  one\n\n  two\nn: 1\n"},
	{"complex-key", "? [a, b]\n: v\n"},
	{"anchored-key", "&k key: v\nother: *k\n"},
	{"tagged-collection", "a: !custom\n  b: 1\nc: !other [1, 2]\n"},
	{"quoted-keys", "\"a b\": 1\n'c: d': 2\n"},
	{"null-forms", "a: null\nb: ~\nc:\nd: Null\n"},
	{"numbers-as-written", "a: 0x1F\nb: 1e3\nc: 1_000\nd: 0o17\ne: +1\nf: 1.50\n"},
	{"timestamps-and-look-alikes", "a: 2021-01-01\nb: 2021-01-01T00:00:00Z\nc: 1:30\nd: yes\ne: 'yes'\n"},
	{"document-end-marker", "a: 1\n...\n---\nb: 2\n"},
	// a start marker with something behind it on the same line, in front of a first document that is empty or only a comment
	{"start-marker-with-comment-empty-first", "--- # first is empty\n---\na: 1\n"},
	{"start-marker-with-blank-empty-first", "--- \n---\na: 1\n"},
	{"start-marker-with-comment-only", "--- # just a comment\n"},
	{"start-marker-with-comment-then-content", "--- # c\na: 1\n---\nb: 2\n"},
	{"header-then-start-marker-with-comment-empty-first", "# lead\n--- # c\n---\nb: 2\n"},
	{"empty-first", "---\n---\na: 1\n"},
	{"comment-only-middle-document", "a: 1\n---\n# only this\n---\nb: 2\n"},
	{"start-marker-with-comment-empty-middle", "a: 1\n--- # second is empty\n---\nb: 2\n"},
	{"comment-only-first", "---\n# only\n---\nb: 2\n"},
	{"empty-collections", "a: []\nb: {}\nc:\n  - []\n  - {}\n"},
	{"nested-flow", "a: {b: [1, {c: 2}], d: []}\n"},
	{"seq-in-map-indentation", "a:\n  - 1\n  - b: 2\n    c: 3\n"},
}

// c05Full: identity on a fully decorated document; judged on the text (every generated comment is unique).
func c05Full(sh *val.V, deco string) (kind, detail string) {
	text := c07Decorate(sh, deco)
	if nodes, err := c05Nodes(text); err != nil || len(nodes) != 1 {
		return "", "" // not a valid document (e.g. the aliases variant on a shape without a scalar to anchor): nothing to judge
	}
	out, yerr, pan := c05Identity(text)
	if pan != nil {
		return "panic", fmt.Sprintf("%v on\n%s", pan, text)
	}
	if yerr != nil {
		return "rejected", fmt.Sprintf("yq rejects a valid stream: %v\n%s", yerr, text)
	}
	comments := func(t string) []string {
		var l []string
		for _, ln := range strings.Split(t, "\n") {
			if i := strings.Index(ln, "# "); i >= 0 {
				l = append(l, strings.TrimSpace(ln[i:]))
			}
		}
		return l
	}
	in, got := comments(text), comments(out)
	count := map[string]int{}
	for _, cm := range got {
		count[cm]++
	}
	for _, cm := range in {
		if count[cm] != 1 {
			return "comment-lost", fmt.Sprintf("comment %q occurs %d times in the output\noutput:\n%s--- input:\n%s", cm, count[cm], out, text)
		}
	}
	if strings.Join(in, "\n") != strings.Join(got, "\n") {
		i := 0
		for i < len(in) && i < len(got) && in[i] == got[i] {
			i++
		}
		return "comment-moved", fmt.Sprintf("comments are no longer in their order: the output has %q where the input has %q\noutput:\n%s--- input:\n%s", got[i], in[i], out, text)
	}
	inNodes, err1 := c05Nodes(text)
	outNodes, err2 := c05Nodes(out)
	if err1 != nil || len(inNodes) != 1 {
		return "", "" // generator text unreadable for the independent reader: nothing to compare
	}
	if err2 != nil || len(outNodes) != 1 {
		return "output-invalid", fmt.Sprintf("output is not one valid YAML document (%v):\n%s--- from input\n%s", err2, out, text)
	}
	if w, g := c05NodeToV(inNodes[0], 0).String(), c05NodeToV(outNodes[0], 0).String(); w != g {
		return "data", fmt.Sprintf("reads %s, was %s\noutput:\n%s--- input:\n%s", g, w, out, text)
	}
	out2, err3, pan3 := c05Identity(out)
	if pan3 != nil || err3 != nil || out2 != out {
		return "not-idempotent", fmt.Sprintf("second pass differs (%v %v)\nfirst:\n%ssecond:\n%s", err3, pan3, out, out2)
	}
	return "", ""
}

func c05Tag(kind string, rootScalar bool) string {
	if rootScalar {
		return kind + "/root=scalar"
	}
	return kind
}

func c05Run(c *fw.Ctx) error {
	n := 3
	if c.Thorough() {
		n = 4
	}
	shapes := val.Universe(n, []*val.V{val.IntV(1), val.StrV("a"), val.NullV()}, []string{"k", "m"})
	extra := []string{`{"k": [1, "a"], "m": {"k": 1}}`, `[{"k": 1}, {"k": "a"}]`, `{"k": {"m": [1]}}`, `[[1, "a"], []]`}
	for _, e := range extra {
		shapes = append(shapes, fromJSONText(e))
	}
	maxDeco := 2
	streams := []string{"", "explicit-start", "lead-comment", "lead-comment-start", "two-docs", "three-docs", "bom-lead-comment", "indented-lead-comment", "huge-lead-comment"}
	c.Res.Bound = fmt.Sprintf("%d shapes (all of <= %d content nodes over 3 scalars and 2 keys, plus 4 deeper ones) x every set of <= %d decorations (5 scalar styles, %d hazard texts, tags, anchor+alias, head/line/foot comments, flow) x 8 stream forms at <= 1 decoration (explicit start, header comment block with and without a byte order mark or indentation, two and three documents) (plus a 70 KiB header line on every shape); plus %d hand-written documents (merge keys, chomping and indentation indicators, complex and anchored keys, tagged collections, number spellings, document end marker); plus the fully decorated documents of C07 (every container shape of <= %d nodes x 3 decoration variants)", len(shapes), n, maxDeco, len(c05Texts), len(c05Hand), map[bool]int{false: 4, true: 5}[c.Thorough()])
	var idx int64
	run := func(cs c05Case, order int64) {
		idx++
		if !c.Mine(idx) || c.Expired() {
			return
		}
		kind, detail := c05Check(cs)
		if kind == "skip" {
			return
		}
		c.Eval(1)
		if kind == "unsure" {
			c.Count("generator_unsure", 1)
			c.SetAdd("generator_unsure_examples", clip(detail, 120))
			return
		}
		c.Validated(1)
		b, _ := json.Marshal(cs)
		if len(cs.Decos) > 0 || cs.Stream != "" {
			c.Nontrivial(string(b))
		}
		if kind == "" {
			c.Outcome(string(b))
			if idx%9973 == 5 {
				_, text, _ := cs.build()
				c.Sample(map[string]interface{}{"case": cs, "text": text})
			}
			return
		}
		c.Count("mismatch_"+kind, 1)
		// signature: the violated clause and the kinds (with parameters) of the decorations involved
		var ds []string
		for _, d := range cs.Decos {
			p := d.Param
			if d.Kind == "head" || d.Kind == "line" || d.Kind == "foot" {
				p = ""
				if len(d.Path) == 0 {
					p = "doc"
				} else if d.Path[len(d.Path)-1] < 0 {
					p = "key"
				}
			}
			ds = append(ds, d.Kind+"="+p)
		}
		sig := kind + "/" + strings.Join(ds, "+")
		if cs.Stream != "" {
			sig += "/stream=" + cs.Stream
		}
		for _, d := range cs.Decos {
			if d.Kind == "text" && d.Param == "😀" && kind == "presentation" {
				sig = "presentation/non-bmp-text" // one root cause: the emitter escapes code points above U+FFFF and therefore double-quotes
			}
		}
		if strings.HasSuffix(kind, "/root=scalar") {
			sig = kind // one root cause: a root-level scalar is printed unwrapped
		}
		if kind == "presentation-leadblank" {
			sig = "presentation/block-scalar-with-blank-first-line"
		}
		c.Violation(sig, order, cs, detail)
	}
	// fully decorated documents (the generator of C07: a comment on every key, item and scalar, foot comments stacked behind nested
	// collections, three variants): the identity must keep every comment once and in order, keep the data and be idempotent
	fn := 4
	if c.Thorough() {
		fn = 5
	}
	var fullShapes []*val.V
	for _, d := range val.Universe(fn, []*val.V{val.IntV(1), val.StrV("a")}, []string{"k", "m"}) {
		if d.K == val.Seq || d.K == val.Map {
			fullShapes = append(fullShapes, d)
		}
	}
	// hand-written documents with constructs the layout generator does not produce, judged by the same clauses
	for hi, h := range c05Hand {
		idx++
		if !c.Mine(idx) || c.Expired() {
			continue
		}
		kind, detail := c05Check(c05Case{Shape: "null", Stream: "hand:" + h.name})
		c.Eval(1)
		c.Validated(1)
		c.Nontrivial("hand|" + h.name)
		if kind == "" {
			c.Outcome("hand|" + h.name)
			continue
		}
		c.Count("mismatch_hand", 1)
		c.Violation(kind+"/hand/"+h.name, 6e6+int64(hi), c05Case{Shape: "null", Stream: "hand:" + h.name}, detail)
	}
	for fi, sh := range fullShapes {
		for _, deco := range []string{"", "foots", "aliases"} {
			idx++
			if !c.Mine(idx) || c.Expired() {
				continue
			}
			kind, detail := c05Full(sh, deco)
			c.Eval(1)
			c.Validated(1)
			key := "full|" + sh.JSON() + "|" + deco
			c.Nontrivial(key)
			if kind == "" {
				c.Outcome(key)
				continue
			}
			c.Count("mismatch_full_"+kind, 1)
			// signature: clause, variant, and the kind of the comment affected ("foot after", "head of", "line of" ...)
			cls := ""
			if m := regexp.MustCompile(`"# (\w+ \w+)`).FindStringSubmatch(detail); m != nil && strings.HasPrefix(kind, "comment-") {
				cls = "/" + strings.ReplaceAll(m[1], " ", "-")
			}
			c.Violation(fmt.Sprintf("%s/fully-decorated/%s%s", kind, deco, cls), 5e6+int64(sh.Size())*1e4+int64(fi), c05Case{Shape: sh.JSON(), Stream: "fully-decorated:" + deco}, detail)
		}
	}
	for si, sh := range shapes {
		shape := sh.JSON()
		opts := c05Options(yamlgen.FromV(sh))
		run(c05Case{Shape: shape}, int64(si))
		for _, st := range streams[1:] {
			run(c05Case{Shape: shape, Stream: st}, 1e5+int64(si))
		}
		for i, d1 := range opts {
			run(c05Case{Shape: shape, Decos: []c05Deco{d1}}, 1e6+int64(si*1000+i))
			for _, st := range streams[1:8] {
				run(c05Case{Shape: shape, Decos: []c05Deco{d1}, Stream: st}, 2e6+int64(si*1000+i))
			}
			if sh.Size() > 3 && !c.Thorough() {
				continue
			}
			for j := i + 1; j < len(opts); j++ {
				d2 := opts[j]
				if d1.Kind == "text" && d2.Kind == "text" && (!c.Thorough() && sh.Size() > 2 || sh.Size() > 3) {
					continue // pairs of two hazard texts only on the smallest shapes (quick)
				}
				run(c05Case{Shape: shape, Decos: []c05Deco{d1, d2}}, 3e6+int64(si*1000+i))
			}
		}
	}
	return nil
}

func c05Replay(raw json.RawMessage) (bool, string, error) {
	var cs c05Case
	if err := json.Unmarshal(raw, &cs); err != nil {
		return false, "", err
	}
	kind, detail := c05Check(cs)
	if kind == "" || kind == "skip" || kind == "unsure" {
		return false, "", nil
	}
	return true, kind + ": " + detail, nil
}

func init() {
	registerLater(func() {
		fw.Register(&fw.Check{
			ID: "C05", Level: "model_checking",
			Rule: "generator with ground truth: abstract layout trees (every shape up to the node bound) x every set of at most 2 decorations - scalar style (plain, single, double, literal, folded), 35 hazard texts (look-alikes, indicators, leading/trailing blanks, escapes, multi-line, non-BMP), explicit tags, anchor + alias, head/line/foot comments on values, keys and the document, flow collections - x stream forms (explicit start, leading comment block, two and three documents); " +
				"the generated text is first read independently (yaml.v3 Node API) and used only if it means the ground truth; the real decode -> `.` -> print path must give: same document count, same data, identical per-node attributes (tag, value, style bits, anchor, alias target, three comments) as read by the Node API, every comment exactly once, same separators, and a byte-identical second pass; non-trivial = case with a decoration or a stream form",
			Assumptions: []string{"presentation is judged through yaml.v3's own Node API: a defect symmetric in its emitter and parser is only caught at data level", "trailing `...` markers are not generated (yaml.v3 drops them by design)"},
			Budget: func(t string) time.Duration {
				if t == "thorough" {
					return 40 * time.Minute
				}
				return 4 * time.Minute
			},
			Run: c05Run, Replay: c05Replay,
		})
	})
}
