package checks

import (
	"bytes"
	"container/list"
	stdjson "encoding/json"
	"fmt"
	"math"
	"math/big"
	"strconv"
	"strings"
	"time"
	"unicode/utf8"

	"github.com/mikefarah/yq/v4/pkg/yqlib"

	"verif/mc/internal/fw"
	"verif/mc/internal/impl"
)

// C06 – YAML<->JSON conversion is value-exact and always emits valid JSON.
// Generator with ground truth: scalars chosen per lexical hazard are placed as root, sequence element, map value and map
// key; the real YAML decoder -> JSON encoder path (and JSON decoder -> YAML encoder -> YAML decoder -> JSON encoder) runs on
// each; the output is read by encoding/json (independent of goccy/go-json which yq uses) and compared exactly.

type c06Scalar struct {
	YAML string // how it is written in YAML
	JSON string // how it is written in JSON ("" = not representable in JSON: an error is required)
	Kind string // str | int | float | bool | null
	Str  string // ground truth for strings
	Num  string // ground truth for numbers: exact decimal (ints) or float64 shortest form
}

func c06Strings(thorough bool) []string {
	cps := []rune{'"', '\\', '/', 0x01, 0x07, 0x08, 0x09, 0x0a, 0x0c, 0x0d, 0x1b, 0x1f, 0x7f, 0x85, 0xa0, 0x2028, 0x2029, '<', '>', '&', ' ', '#', ':', '-', '0', '1', 'e', 'x', 'n', 'u', 'l', 't', 'r', 'é', 0xfffd, 0x1f600, '\'', '%', '@', '`', '!', '|', '*', '?', '[', '{', ',', '~', '.', '=', '$'}
	var out []string
	out = append(out, "")
	for _, a := range cps {
		out = append(out, string(a))
		for _, b := range cps {
			out = append(out, string(a)+string(b))
			if thorough {
				for _, d := range cps {
					out = append(out, string(a)+string(b)+string(d))
				}
			}
		}
	}
	out = append(out, "null", "Null", "~", "true", "false", "yes", "no", "on", "off", "y", "n", "1", "-1", "0x1f", "0o17", "1_000", "1.5", "1e3", ".inf", "-.inf", ".nan", "1:30", "2021-01-01", "2021-01-01T00:00:00Z",
		"<<", "=", "a: b", "a #b", "- a", "[a]", "{a}", "*a", "&a", "!a", "%a", "|", ">", "@a", "`a", " a", "a ", "a\nb", "a\n", "\na", "a\n\n", "\ta", "a\tb", "  ", "\n", "\n\n", "\t\n", "é\n", "line1\nline2\n", "a\r\nb", strings.Repeat("long ", 30), "\x00")
	return out
}

func yamlDQ(s string) string {
	var sb strings.Builder
	sb.WriteByte('"')
	for _, r := range s {
		switch {
		case r == '"':
			sb.WriteString(`\"`)
		case r == '\\':
			sb.WriteString(`\\`)
		case r == '\n':
			sb.WriteString(`\n`)
		case r == '\t':
			sb.WriteString(`\t`)
		case r == '\r':
			sb.WriteString(`\r`)
		case r == 0:
			sb.WriteString(`\0`)
		case r < 0x20 || r == 0x7f || r == 0x85 || r == 0xa0 || r == 0x2028 || r == 0x2029:
			if r <= 0xff {
				sb.WriteString(fmt.Sprintf(`\x%02x`, r))
			} else {
				sb.WriteString(fmt.Sprintf(`\u%04x`, r))
			}
		default:
			sb.WriteRune(r)
		}
	}
	sb.WriteByte('"')
	return sb.String()
}

func c06Scalars(thorough bool) []c06Scalar {
	var out []c06Scalar
	for _, s := range c06Strings(thorough) {
		b, _ := stdjson.Marshal(s)
		out = append(out, c06Scalar{YAML: yamlDQ(s), JSON: string(b), Kind: "str", Str: s})
	}
	ints := [][2]string{{"0", "0"}, {"-0", "0"}, {"1", "1"}, {"-1", "-1"}, {"9007199254740992", "9007199254740992"}, {"9007199254740993", "9007199254740993"}, {"9223372036854775807", "9223372036854775807"},
		{"-9223372036854775808", "-9223372036854775808"}, {"0x1F", "31"}, {"0o17", "15"}, {"123456789012", "123456789012"}}
	for _, i := range ints {
		js := i[1]
		out = append(out, c06Scalar{YAML: i[0], JSON: js, Kind: "int", Num: i[1]})
	}
	// beyond 64 bits: an error is acceptable, a different value is not
	for _, b := range []string{"9223372036854775808", "100000000000000000000"} {
		out = append(out, c06Scalar{YAML: b, JSON: b, Kind: "bigint", Num: b})
	}
	// hex spellings at and beyond the sign bit (YAML only)
	out = append(out, c06Scalar{YAML: "0x7FFFFFFFFFFFFFFF", JSON: "9223372036854775807", Kind: "int", Num: "9223372036854775807"},
		c06Scalar{YAML: "0x8000000000000000", JSON: "9223372036854775808", Kind: "bigint", Num: "9223372036854775808"},
		c06Scalar{YAML: "0xFFFFFFFFFFFFFFFF", JSON: "18446744073709551615", Kind: "bigint", Num: "18446744073709551615"})
	floats := []string{"1.5", "-0.5", "1e10", "1E-7", "1.0", "0.5", "6.02e23", "3.141592653589793", "1e-320", "123456.789e3",
		// whole numbers in float notation at the edges of the 64-bit integers (exactly 2^63, -2^63, 2^64, 2^53) and just inside
		"9223372036854775808.0", "9.223372036854775808e18", "-9223372036854775808.0", "-9.223372036854775808e18", "18446744073709551616.0", "9007199254740992.0", "9.2233720368547748e18", "-9.2233720368547778e18", "1e19", "100.0", "1e2"}
	for _, f := range floats {
		v, _ := strconv.ParseFloat(f, 64)
		out = append(out, c06Scalar{YAML: f, JSON: f, Kind: "float", Num: strconv.FormatFloat(v, 'g', -1, 64)})
	}
	for _, f := range []string{".inf", "-.inf", ".nan"} {
		out = append(out, c06Scalar{YAML: f, Kind: "unrepresentable"})
	}
	out = append(out, c06Scalar{YAML: "true", JSON: "true", Kind: "bool", Str: "true"}, c06Scalar{YAML: "false", JSON: "false", Kind: "bool", Str: "false"},
		c06Scalar{YAML: "null", JSON: "null", Kind: "null"}, c06Scalar{YAML: "~", JSON: "null", Kind: "null"})
	return out
}

type c06Case struct {
	Dir    string    `json:"direction"` // yaml2json | json2yaml2json
	Place  string    `json:"place"`     // root | elem | value | key | nested
	Scalar c06Scalar `json:"scalar"`
	Indent int       `json:"indent"`
	Unwrap bool      `json:"unwrap"`
}

func (cs c06Case) docs() (yamlText, jsonText string, path []interface{}) {
	y, j := cs.Scalar.YAML, cs.Scalar.JSON
	switch cs.Place {
	case "root":
		return y + "\n", j + "\n", nil
	case "elem":
		return "- first\n- " + y + "\n- last\n", `["first", ` + j + `, "last"]`, []interface{}{1}
	case "value":
		return "k1: 1\nk: " + y + "\nk3: 3\n", `{"k1": 1, "k": ` + j + `, "k3": 3}`, []interface{}{"k"}
	case "key":
		return "k1: 1\n" + y + ": v\nk3: 3\n", `{"k1": 1, ` + j + `: "v", "k3": 3}`, []interface{}{"\x00key"}
	case "nested":
		return "a:\n  - b:\n      - " + y + "\n", `{"a": [{"b": [` + j + `]}]}`, []interface{}{"a", 0, "b", 0}
	}
	return "", "", nil
}

func c06Encode(n []*yqlib.CandidateNode, indent int, unwrap bool) (string, error, interface{}) {
	p := impl.JSONPrefs()
	p.Indent = indent
	p.UnwrapScalar = unwrap
	return impl.Print(n, yqlib.NewJSONEncoder(p))
}

// c06Check returns "" or (kind, detail).
// c06Hand: YAML documents whose sharing (anchors, aliases as values and as keys, merge keys) JSON cannot carry, with the JSON they mean.
var c06Hand = []struct{ name, yaml, json string }{
	{"alias-value", "- &a 1\n- *a\n", `[1,1]`},
	{"alias-map-value", "a: &m {p: 1}\nb: *m\n", `{"a":{"p":1},"b":{"p":1}}`},
	{"alias-key", "k: &a x\n*a : 2\n", `{"k":"x","x":2}`},
	{"anchored-key-aliased-as-value", "&k key: v\nother: *k\n", `{"key":"v","other":"key"}`},
	{"alias-key-only-aliases-are-keys", "- &a x\n- {*a : 1}\n", `["x",{"x":1}]`},
	{"merge-key", "a: &m {p: 1, q: 2}\nb:\n  <<: *m\n  q: 3\n", `{"a":{"p":1,"q":2},"b":{"p":1,"q":3}}`},
	{"alias-in-nested-flow", "x: &s [1, {k: v}]\ny: {z: [*s, *s]}\n", `{"x":[1,{"k":"v"}],"y":{"z":[[1,{"k":"v"}],[1,{"k":"v"}]]}}`},
	{"anchor-name-defined-again", "a: &x 1\nb: *x\nc: &x 2\nd: *x\ne: &x {p: 3}\nf: {q: *x}\n", `{"a":1,"b":1,"c":2,"d":2,"e":{"p":3},"f":{"q":{"p":3}}}`},
	{"merge-source-defined-again", "a: &x {p: 1}\nb: {<<: *x}\nc: &x {p: 2, r: 3}\nd: {<<: *x}\n", `{"a":{"p":1},"b":{"p":1},"c":{"p":2,"r":3},"d":{"p":2,"r":3}}`},
	{"alias-to-scalar-in-key-and-value", "n: &n 5\nm: {*n : *n}\n", `{"n":5,"m":{"5":5}}`},
}

func c06CheckHand(name string) (kind, detail string) {
	for _, h := range c06Hand {
		if h.name != name {
			continue
		}
		for _, viaPrinter := range []bool{true, false} {
			docs, err, pan := impl.DecodeYAML(h.yaml)
			if pan != nil || err != nil || len(docs) != 1 {
				return "unsure", fmt.Sprintf("hand-written document does not decode: %v %v", err, pan)
			}
			var out string
			var eerr error
			var epan interface{}
			if viaPrinter {
				// the way the command line prints: through the printer, which explodes aliases first
				var buf bytes.Buffer
				func() {
					defer func() {
						if r := recover(); r != nil {
							epan = r
						}
					}()
					p := impl.JSONPrefs()
					p.Indent = 0
					pr := yqlib.NewPrinter(yqlib.NewJSONEncoder(p), yqlib.NewSinglePrinterWriter(&buf))
					l := list.New()
					l.PushBack(docs[0])
					eerr = pr.PrintResults(l)
				}()
				out = buf.String()
			} else {
				out, eerr, epan = c06Encode(docs, 0, false)
			}
			if epan != nil {
				return "panic", fmt.Sprintf("%v", epan)
			}
			if eerr != nil {
				continue // an error is acceptable, another value is not
			}
			var got, want interface{}
			if err := stdjson.Unmarshal([]byte(out), &got); err != nil {
				return "invalid-json", fmt.Sprintf("%q: %v", out, err)
			}
			stdjson.Unmarshal([]byte(h.json), &want)
			g, _ := stdjson.Marshal(got)
			w, _ := stdjson.Marshal(want)
			if string(g) != string(w) {
				return "value", fmt.Sprintf("YAML %q means %s, JSON output is %s (through the printer: %v)", h.yaml, w, strings.TrimSpace(out), viaPrinter)
			}
		}
	}
	return "", ""
}

func c06Check(cs c06Case) (kind, detail string) {
	if cs.Dir == "hand" {
		return c06CheckHand(cs.Place)
	}
	yamlText, jsonText, path := cs.docs()
	if cs.Place == "key" && cs.Scalar.Kind != "str" {
		return "skip", "" // non-string keys: JSON has none; what they become is not specified
	}
	if cs.Place == "root" && cs.Unwrap && cs.Scalar.Kind != "str" {
		return "skip", "" // an unwrapped root scalar is printed as its raw text by design
	}
	var nodes []*yqlib.CandidateNode
	switch cs.Dir {
	case "yaml2json":
		docs, err, pan := impl.DecodeYAML(yamlText)
		if pan != nil {
			return "panic", fmt.Sprintf("decoding %q: %v", yamlText, pan)
		}
		if err != nil || len(docs) != 1 {
			return "skip", "yaml does not decode"
		}
		nodes = docs
	case "json2yaml2json":
		if cs.Scalar.JSON == "" {
			return "skip", ""
		}
		dec := yqlib.NewJSONDecoder()
		if err := dec.Init(strings.NewReader(jsonText)); err != nil {
			return "json-decode", err.Error()
		}
		n, err := dec.Decode()
		if err != nil {
			return "json-decode", fmt.Sprintf("valid JSON %q rejected: %v", jsonText, err)
		}
		yprefs := impl.YamlPrefs()
		yprefs.UnwrapScalar = false
		ytext, yerr, ypan := impl.Print([]*yqlib.CandidateNode{n}, yqlib.NewYamlEncoder(yprefs))
		if ypan != nil {
			return "panic", fmt.Sprintf("printing as yaml: %v", ypan)
		}
		if yerr != nil {
			return "yaml-encode", fmt.Sprintf("JSON %q cannot be printed as YAML: %v", jsonText, yerr)
		}
		docs, derr, dpan := impl.DecodeYAML(ytext)
		if dpan != nil {
			return "panic", fmt.Sprint(dpan)
		}
		if derr != nil || len(docs) != 1 {
			return "yaml-reread", fmt.Sprintf("JSON %q was written as YAML %q which yq cannot read back: %v (%d documents)", jsonText, ytext, derr, len(docs))
		}
		nodes = docs
	}
	out, err, pan := c06Encode(nodes, cs.Indent, cs.Unwrap)
	if pan != nil {
		return "panic", fmt.Sprintf("encoding: %v", pan)
	}
	unrepresentable := cs.Scalar.Kind == "unrepresentable" || (cs.Place == "key" && cs.Scalar.Kind != "str")
	if err != nil {
		if cs.Scalar.Kind == "unrepresentable" || cs.Scalar.Kind == "bigint" {
			return "", ""
		}
		return "unexpected-error", fmt.Sprintf("%s of %q fails: %v", cs.Dir, yamlText, err)
	}
	if cs.Place == "key" && cs.Scalar.Kind != "str" {
		return "skip", "" // non-string keys: JSON has none; what they become is not specified
	}
	// unwrapped root strings are printed raw by design (-r): not JSON
	if cs.Place == "root" && cs.Unwrap && cs.Scalar.Kind == "str" {
		if strings.TrimSuffix(out, "\n") != cs.Scalar.Str && out != cs.Scalar.Str {
			return "unwrapped-root", fmt.Sprintf("unwrapped root string %q printed as %q", cs.Scalar.Str, out)
		}
		return "", ""
	}
	// independent reader: encoding/json, numbers kept as text, exactly one value
	dec := stdjson.NewDecoder(bytes.NewReader([]byte(out)))
	dec.UseNumber()
	var v interface{}
	if derr := dec.Decode(&v); derr != nil {
		if unrepresentable {
			return "invalid-json", fmt.Sprintf("%q cannot be represented in JSON; yq exits without error and prints %q which is not JSON", yamlText, out)
		}
		return "invalid-json", fmt.Sprintf("output %q is not valid JSON: %v", out, derr)
	}
	if dec.More() {
		return "invalid-json", fmt.Sprintf("output %q holds more than one JSON value", out)
	}
	if !utf8.ValidString(out) {
		return "invalid-json", "output is not valid UTF-8"
	}
	if unrepresentable {
		return "silently-changed", fmt.Sprintf("%q cannot be represented in JSON but yq printed %q without an error", strings.TrimSpace(yamlText), strings.TrimSpace(out))
	}
	// walk to the scalar
	cur := v
	if len(path) == 1 && path[0] == "\x00key" {
		// key order and key text by token walk
		keys := c06Keys(out)
		if len(keys) != 3 || keys[0] != "k1" || keys[2] != "k3" {
			return "key-order", fmt.Sprintf("keys of %q are %q", out, keys)
		}
		if keys[1] != cs.Scalar.Str {
			return "value", fmt.Sprintf("key %q came out as %q (output %q)", cs.Scalar.Str, keys[1], out)
		}
		return "", ""
	}
	for _, p := range path {
		switch k := p.(type) {
		case int:
			arr, ok := cur.([]interface{})
			if !ok || k >= len(arr) {
				return "structure", fmt.Sprintf("output %q lost its structure", out)
			}
			cur = arr[k]
		case string:
			m, ok := cur.(map[string]interface{})
			if !ok {
				return "structure", fmt.Sprintf("output %q lost its structure", out)
			}
			cur, ok = m[k]
			if !ok {
				return "structure", fmt.Sprintf("key %q missing in %q", k, out)
			}
		}
	}
	want := cs.Scalar
	switch want.Kind {
	case "str":
		s, ok := cur.(string)
		if !ok || s != want.Str {
			return "value", fmt.Sprintf("string %q came out as %#v (output %q)", want.Str, cur, clip(out, 200))
		}
	case "bool":
		b, ok := cur.(bool)
		if !ok || strconv.FormatBool(b) != want.Str {
			return "value", fmt.Sprintf("boolean %s came out as %#v", want.Str, cur)
		}
	case "null":
		if cur != nil {
			return "value", fmt.Sprintf("null came out as %#v", cur)
		}
	case "int", "bigint":
		n, ok := cur.(stdjson.Number)
		if !ok {
			return "value", fmt.Sprintf("integer %s came out as %#v", want.Num, cur)
		}
		got, ok2 := new(big.Int).SetString(n.String(), 10)
		exp, _ := new(big.Int).SetString(want.Num, 10)
		if !ok2 {
			// a float spelling is fine when it denotes exactly the same number
			if f, _, err := big.ParseFloat(n.String(), 10, 400, big.ToNearestEven); err == nil && f.IsInt() {
				got, _ = f.Int(nil)
				ok2 = true
			}
		}
		if !ok2 || got.Cmp(exp) != 0 {
			return "value", fmt.Sprintf("integer %s came out as %s", want.Num, n.String())
		}
	case "float":
		n, ok := cur.(stdjson.Number)
		if !ok {
			return "value", fmt.Sprintf("float %s came out as %#v", want.Num, cur)
		}
		got, err := strconv.ParseFloat(n.String(), 64)
		exp, _ := strconv.ParseFloat(want.Num, 64)
		if err != nil || got != exp || math.Signbit(got) != math.Signbit(exp) {
			return "value", fmt.Sprintf("float %s came out as %s", want.Num, n.String())
		}
	}
	return "", ""
}

// c06Keys lists the keys of the top-level object in token order.
func c06Keys(out string) []string {
	dec := stdjson.NewDecoder(strings.NewReader(out))
	var keys []string
	depth := 0
	expectKey := false
	for {
		t, err := dec.Token()
		if err != nil {
			break
		}
		switch x := t.(type) {
		case stdjson.Delim:
			if x == '{' || x == '[' {
				depth++
				expectKey = x == '{' && depth == 1
			} else {
				depth--
				expectKey = depth == 1
			}
		case string:
			if depth == 1 && expectKey {
				keys = append(keys, x)
				expectKey = false
			} else if depth == 1 {
				expectKey = true
			}
		default:
			if depth == 1 {
				expectKey = true
			}
		}
	}
	return keys
}

func c06Run(c *fw.Ctx) error {
	scalars := c06Scalars(c.Thorough())
	places := []string{"root", "elem", "value", "key", "nested"}
	type cfg struct {
		indent int
		unwrap bool
	}
	cfgs := []cfg{{0, false}, {2, false}, {2, true}, {7, false}}
	if !c.Thorough() {
		cfgs = []cfg{{0, false}, {2, true}}
	}
	c.Res.Bound = fmt.Sprintf("%d scalars (all strings of length <= %d over 51 code points incl. every control/escape class, look-alike strings, strings ending in line feeds, integers up to 64 bit and beyond, floats incl. exponents/inf/nan) x 5 positions x %d (indent, unwrap) settings x 2 directions; 10 hand-written documents with anchors, aliases (as values and as keys) and merge keys, through the printer and through the encoder alone", len(scalars), map[bool]int{false: 2, true: 3}[c.Thorough()], len(cfgs))
	var idx int64
	for hi, h := range c06Hand {
		idx++
		if !c.Mine(idx) {
			continue
		}
		cs := c06Case{Dir: "hand", Place: h.name}
		kind, detail := c06Check(cs)
		c.Eval(1)
		c.Validated(1)
		c.Nontrivial("hand/" + h.name)
		if kind == "" {
			c.Outcome("hand/" + h.name)
			continue
		}
		c.Count("mismatch_"+kind, 1)
		c.Violation(kind+"/hand/"+h.name, int64(hi), cs, detail)
	}
	for si, sc := range scalars {
		for _, pl := range places {
			for _, cf := range cfgs {
				for _, dir := range []string{"yaml2json", "json2yaml2json"} {
					idx++
					if !c.Mine(idx) {
						continue
					}
					if c.Expired() {
						return nil
					}
					cs := c06Case{Dir: dir, Place: pl, Scalar: sc, Indent: cf.indent, Unwrap: cf.unwrap}
					kind, detail := c06Check(cs)
					if kind == "skip" {
						c.Count("skipped", 1)
						continue
					}
					c.Eval(1)
					c.Validated(1)
					key := fmt.Sprintf("%s/%s/%d/%v/%s", dir, pl, cf.indent, cf.unwrap, sc.YAML)
					c.Nontrivial(key)
					if kind == "" {
						c.Outcome(key)
						if idx%7001 == 3 {
							c.Sample(cs)
						}
						continue
					}
					c.Count("mismatch_"+kind, 1)
					c.Violation(kind+"/"+dir+"/"+c06Class(sc), int64(len(sc.YAML))*1e6+int64(si), cs, detail)
				}
			}
		}
	}
	return nil
}

// c06Class: the lexical class of the culprit scalar (signature atom).
func c06Class(sc c06Scalar) string {
	if sc.Kind != "str" {
		return sc.Kind + ":" + sc.YAML
	}
	s := sc.Str
	switch {
	case s == "":
		return "str:empty"
	case s == "<<":
		return "str:merge-key-text"
	case strings.HasSuffix(s, "\n") || strings.HasPrefix(s, "\n"):
		return "str:leading-or-trailing-linefeed"
	case strings.ContainsAny(s, "\x00"):
		return "str:nul"
	case strings.ContainsRune(s, '\r'):
		return "str:carriage-return"
	}
	for _, r := range s {
		if r < 0x20 || r == 0x7f || r == 0x85 || r == 0x2028 || r == 0x2029 || r == 0xa0 {
			return fmt.Sprintf("str:control-%04x", r)
		}
	}
	return "str:" + s
}

func c06Replay(raw stdjson.RawMessage) (bool, string, error) {
	var cs c06Case
	if err := stdjson.Unmarshal(raw, &cs); err != nil {
		return false, "", err
	}
	kind, detail := c06Check(cs)
	if kind == "" || kind == "skip" {
		return false, "", nil
	}
	return true, kind + ": " + detail, nil
}

func init() {
	registerLater(func() {
		fw.Register(&fw.Check{
			ID: "C06", Level: "model_checking",
			Rule: "generator with ground truth: every string of length <= 2 over 51 code points (quotes, backslash, every C0 class, DEL, NEL, NBSP, LS/PS, HTML characters, YAML indicators, non-BMP), look-alike strings, strings with leading/trailing line feeds, integers to 64 bit and beyond, floats incl. exponents and inf/nan, as root, element, value, key and nested, " +
				"x indent/unwrap settings, through YAML decoder -> JSON encoder and through JSON decoder -> YAML encoder -> YAML decoder -> JSON encoder; the output is parsed by encoding/json (UseNumber, exactly one value) and compared: strings by code point, integers exactly, floats by float64 identity, key order by token walk; unrepresentable values must give an error; distinct = distinct case",
			Assumptions: []string{"encoding/json as the independent JSON reader (yq uses goccy/go-json)", "an unwrapped root string is printed raw by design (-r) and compared as raw text"},
			Budget:      func(t string) time.Duration { return 15 * time.Minute },
			Run:         c06Run, Replay: c06Replay,
		})
	})
}
