package checks

import (
	"bytes"
	"encoding/json"
	"fmt"
	"strconv"
	"strings"
	"time"

	"github.com/mikefarah/yq/v4/pkg/yqlib"
	yaml "gopkg.in/yaml.v3"

	"verif/mc/internal/fw"
	"verif/mc/internal/impl"
	"verif/mc/internal/val"
	"verif/mc/internal/yamlgen"
)

// C07 – an update leaves the presentation of everything it did not touch intact.
// Fully decorated documents for every shape up to the node bound x every node as target x every update kind;
// per-path attribute tables (read with yaml.v3's Node API) of `yq .` and of `yq <update>` must agree outside the target set.

type c07Case struct {
	Shape  string   `json:"shape"`
	Target []string `json:"target"`               // path: keys and indices as text ("#2" = index 2)
	Update string   `json:"update"`               // kind
	Deco   string   `json:"decoration,omitempty"` // "" (foot comment after the last entry of nested collections) | foots (after every entry) | aliases (a commented alias entry closes every collection)
	// updates addressed through an alias, in a file whose sections (or documents) define anchor names again
	Names   []string `json:"anchor_name_of_each_section,omitempty"`
	Section int      `json:"addressed_section,omitempty"`
	Stream  bool     `json:"one_document_per_section,omitempty"`
}

// c07AliasText: one section per name, each with its own anchored defaults and an alias to them.
func c07AliasText(names []string, stream bool) string {
	var sb strings.Builder
	sb.WriteString("# every section has its own defaults\n")
	for i, n := range names {
		ind := "  "
		if stream {
			ind = ""
			if i > 0 {
				sb.WriteString("---\n")
			}
		} else {
			fmt.Fprintf(&sb, "s%d:\n", i)
		}
		fmt.Fprintf(&sb, "%s# defaults of section %d\n%sdefaults: &%s\n%s  replicas: %d # c%d\n%s  tier: 't%d'\n%s  zone: z%d # z\n%sspec: *%s # uses %d\n", ind, i, ind, n, ind, i, i, ind, i, ind, i, ind, n, i)
	}
	return sb.String()
}

// c07AliasCheck: T is the node the alias refers to (the latest definition of the name in front of it); the output must be that of
// `.` with the one line inside T rewritten (or gone).
func c07AliasCheck(cs c07Case) (kind, detail string) {
	text := c07AliasText(cs.Names, cs.Stream)
	base, berr, bpan := c07Run1(text, ".")
	if berr != nil || bpan != nil {
		return "skip", "identity fails"
	}
	p := fmt.Sprintf(".s%d.spec.replicas", cs.Section)
	if cs.Stream {
		p = fmt.Sprintf("(select(di == %d) | .spec.replicas)", cs.Section)
	}
	old := fmt.Sprintf("replicas: %d # c%d\n", cs.Section, cs.Section)
	if strings.Count(base, old) != 1 {
		return "skip", "baseline lacks the line"
	}
	var expr, want string
	switch cs.Update {
	case "scalar":
		expr, want = p+" = 9", strings.Replace(base, old, fmt.Sprintf("replicas: 9 # c%d\n", cs.Section), 1)
	case "arith":
		expr, want = p+" |= . + 5", strings.Replace(base, old, fmt.Sprintf("replicas: %d # c%d\n", cs.Section+5, cs.Section), 1)
	case "delete":
		expr = "del(" + p + ")"
		i := strings.Index(base, old)
		j := strings.LastIndex(base[:i], "\n") + 1
		want = base[:j] + base[i+len(old):]
	case "delete-two-named-backwards":
		// two entries of one map, the later one named first
		q := strings.Replace(p, ".replicas", ".tier", 1)
		expr = "del(" + q + ", " + p + ")"
		i := strings.Index(base, old)
		j := strings.LastIndex(base[:i], "\n") + 1
		want = base[:j] + base[i+len(old):]
		tier := fmt.Sprintf("tier: 't%d'\n", cs.Section)
		if strings.Count(want, tier) != 1 {
			return "skip", "baseline lacks the line"
		}
		i = strings.Index(want, tier)
		j = strings.LastIndex(want[:i], "\n") + 1
		want = want[:j] + want[i+len(tier):]
	default:
		return "skip", ""
	}
	got, err, pan := c07Run1(text, expr)
	if pan != nil {
		return "panic", fmt.Sprint(pan)
	}
	if err != nil {
		return "error", err.Error()
	}
	if got != want {
		return "through-alias", fmt.Sprintf("document:\n%s`%s` gives\n%sexpected `.` with the one line rewritten:\n%s", text, expr, got, want)
	}
	return "", ""
}

// c07Decorate renders the shape with every node decorated; returns text.
func c07Decorate(v *val.V, deco string) string {
	root := yamlgen.FromV(v)
	n := 0
	anchored := false
	var walk func(l *yamlgen.L, path string, isKey bool)
	walk = func(l *yamlgen.L, path string, isKey bool) {
		n++
		if l.Kind == val.Seq || l.Kind == val.Map {
			for i, c := range l.Kids {
				sub := fmt.Sprintf("%s.%d", path, i)
				if l.Kind == val.Map {
					if deco != "foots" {
						l.Keys[i].Head = "head of key " + sub
					}
					walk(l.Keys[i], sub+"k", true)
				} else if deco != "foots" {
					c.Head = "head of item " + sub
				}
				walk(c, sub, false)
			}
			if len(l.Kids) > 0 && path != "" {
				l.Kids[len(l.Kids)-1].Foot = "foot after " + path
			}
			if deco == "foots" {
				// foot comments only (the parser reads a comment as the foot of an entry only when it follows the entry directly, the
				// entry's line has no comment and the next entry has no head comment): one after every entry
				for i, c := range l.Kids {
					c.Foot, c.Tight = fmt.Sprintf("foot of entry %s.%d", path, i), true
					c.Line = ""
					if path == "r" && i == len(l.Kids)-1 {
						c.Foot, c.Tight = "foot after r", false // the comment that closes the document
					}
				}
			}
			if deco == "aliases" && len(l.Kids) > 0 {
				// the last entry of every collection is an alias with comments of its own (the anchor is on the first scalar of the document)
				al := &yamlgen.L{Alias: "x", Line: "line of alias in " + path}
				if l.Kind == val.Map {
					l.Keys = append(l.Keys, &yamlgen.L{Kind: val.Str, Text: "al", Head: "head of alias key in " + path})
				} else {
					al.Head = "head of alias in " + path
				}
				if path != "" {
					al.Foot, l.Kids[len(l.Kids)-1].Foot = l.Kids[len(l.Kids)-1].Foot, ""
				}
				l.Kids = append(l.Kids, al)
			}
			return
		}
		if !isKey {
			if deco == "aliases" && !anchored {
				anchored = true
				l.Anchor = "x"
			}
			l.Line = "line of " + path
			if l.Kind == val.Str && deco != "foots" {
				switch n % 3 {
				case 0:
					if yamlgen.StyleLegal("single", l.Text) {
						l.Style = "single"
					}
				case 1:
					l.Style = "double"
				}
			}
		}
	}
	walk(root, "r", false)
	text := "# leading comment\n---\n" + yamlgen.Render(root)
	return text
}

// row: attributes of one node; table: path -> row
type c07Row struct {
	attrs string
}

func c07Table(n *yaml.Node) (map[string]string, map[string][]string) {
	rows := map[string]string{}
	kids := map[string][]string{}
	var walk func(n *yaml.Node, path string)
	trim := func(s string) string { return strings.TrimSpace(s) }
	attrs := func(n *yaml.Node) string {
		alias := ""
		if n.Alias != nil {
			alias = n.Alias.Anchor
		}
		return fmt.Sprintf("k%d t=%s st=%d a=%q al=%q h=%q l=%q f=%q", n.Kind, n.ShortTag(), n.Style, n.Anchor, alias, trim(n.HeadComment), trim(n.LineComment), trim(n.FootComment))
	}
	walk = func(n *yaml.Node, path string) {
		switch n.Kind {
		case yaml.DocumentNode:
			rows["<doc>"] = fmt.Sprintf("h=%q f=%q", trim(n.HeadComment), trim(n.FootComment))
			for _, c := range n.Content {
				walk(c, path)
			}
			return
		case yaml.MappingNode:
			rows[path] = attrs(n)
			for i := 0; i+1 < len(n.Content); i += 2 {
				k := n.Content[i]
				sub := path + "/" + k.Value
				rows[sub+"#key"] = attrs(k) + " v=" + strconv.Quote(k.Value)
				kids[path] = append(kids[path], k.Value)
				walk(n.Content[i+1], sub)
			}
			return
		case yaml.SequenceNode:
			rows[path] = attrs(n)
			for i, c := range n.Content {
				kids[path] = append(kids[path], "#"+strconv.Itoa(i))
				walk(c, path+"/#"+strconv.Itoa(i))
			}
			return
		}
		rows[path] = attrs(n) + " v=" + strconv.Quote(n.Value)
	}
	walk(n, "")
	return rows, kids
}

func c07Run1(text, expr string) (string, error, interface{}) {
	var buf bytes.Buffer
	var err error
	var pan interface{}
	func() {
		defer func() {
			if r := recover(); r != nil {
				pan = r
			}
		}()
		e, perr := yqlib.ExpressionParser.ParseExpression(expr)
		if perr != nil {
			err = perr
			return
		}
		pr := yqlib.NewPrinter(yqlib.NewYamlEncoder(impl.YamlPrefs()), yqlib.NewSinglePrinterWriter(&buf))
		_, err = yqlib.NewStreamEvaluator().Evaluate("in.yml", strings.NewReader(text), e, pr, yqlib.NewYamlDecoder(impl.YamlPrefs()))
	}()
	return buf.String(), err, pan
}

func c07PathExpr(target []string) string {
	if len(target) == 0 {
		return "."
	}
	var sb strings.Builder
	for _, t := range target {
		if strings.HasPrefix(t, "#") {
			sb.WriteString(".[" + t[1:] + "]")
		} else {
			sb.WriteString(".[" + strconv.Quote(t) + "]")
		}
	}
	return sb.String()
}

// c07Check returns (kind, detail).
func c07Check(cs c07Case) (kind, detail string) {
	if len(cs.Names) > 0 {
		return c07AliasCheck(cs)
	}
	v := fromJSONText(cs.Shape)
	text := c07Decorate(v, cs.Deco)
	extra := 0 // entries the decoration adds to every non-empty collection
	if cs.Deco == "aliases" {
		extra = 1
		// the anchored scalar is the first leaf: a target that contains it would remove the anchor the aliases need
		lp := []string{}
		for t := v; t.K == val.Seq || t.K == val.Map; {
			if len(t.Vals) == 0 {
				lp = nil
				break
			}
			if t.K == val.Map {
				lp = append(lp, t.Keys[0].S)
			} else {
				lp = append(lp, "#0")
			}
			t = t.Vals[0]
		}
		if lp == nil || len(cs.Target) <= len(lp) && strings.Join(lp[:len(cs.Target)], "/") == strings.Join(cs.Target, "/") {
			return "skip", ""
		}
	}
	// target value
	tv := v
	for _, t := range cs.Target {
		if strings.HasPrefix(t, "#") {
			i, _ := strconv.Atoi(t[1:])
			if tv.K != val.Seq || i >= len(tv.Vals) {
				return "skip", ""
			}
			tv = tv.Vals[i]
		} else {
			found := false
			for i, k := range tv.Keys {
				if k.S == t {
					tv = tv.Vals[i]
					found = true
					break
				}
			}
			if !found {
				return "skip", ""
			}
		}
	}
	p := c07PathExpr(cs.Target)
	var expr string
	tpath := "/" + strings.Join(cs.Target, "/")
	if len(cs.Target) == 0 {
		tpath = ""
	}
	touched := []string{tpath} // path prefixes that belong to T
	deletedIdx, deletedParent := -1, ""
	switch cs.Update {
	case "scalar":
		expr = p + ` = "new"`
	case "subtree":
		expr = p + ` = {"n": 1}`
	case "computed-index":
		// the same assignment with the last step worked out by an expression that looks at a path the document does not have
		if len(cs.Target) == 0 {
			return "skip", ""
		}
		last := cs.Target[len(cs.Target)-1]
		step := strconv.Quote(last)
		if strings.HasPrefix(last, "#") {
			step = last[1:]
		}
		parent := c07PathExpr(cs.Target[:len(cs.Target)-1])
		if parent == "." {
			parent = ""
		}
		expr = parent + "[.zzmissing.deeper // " + step + `] = "new"`
		if parent == "" {
			expr = "." + expr
		}
	case "delete":
		if len(cs.Target) == 0 {
			return "skip", ""
		}
		expr = "del(" + p + ")"
		last := cs.Target[len(cs.Target)-1]
		if strings.HasPrefix(last, "#") {
			deletedIdx, _ = strconv.Atoi(last[1:])
			deletedParent = "/" + strings.Join(cs.Target[:len(cs.Target)-1], "/")
			if len(cs.Target) == 1 {
				deletedParent = ""
			}
		}
	case "delete-via-key":
		// the same deletion addressed at the entry's key node
		if len(cs.Target) == 0 || strings.HasPrefix(cs.Target[len(cs.Target)-1], "#") {
			return "skip", ""
		}
		expr = "del(" + p + " | key)"
	case "copy-into-seq-then-delete-first":
		// two steps in one program: the target (a map entry's value) is copied to the end of a sequence elsewhere in the document,
		// then the first element of that sequence is deleted; the target itself, its key included, is outside T
		if len(cs.Target) == 0 || strings.HasPrefix(cs.Target[len(cs.Target)-1], "#") {
			return "skip", ""
		}
		var seqPath []string
		var find func(n *val.V, path []string)
		find = func(n *val.V, path []string) {
			if seqPath != nil {
				return
			}
			if n.K == val.Seq && len(n.Vals) > 0 && len(path) > 0 {
				pj, tj := "/"+strings.Join(path, "/"), "/"+strings.Join(cs.Target, "/")
				if !strings.HasPrefix(pj+"/", tj+"/") && !strings.HasPrefix(tj+"/", pj+"/") {
					seqPath = append([]string{}, path...)
					return
				}
			}
			for i, c := range n.Vals {
				if n.K == val.Map {
					find(c, append(append([]string{}, path...), n.Keys[i].S))
				} else {
					find(c, append(append([]string{}, path...), "#"+strconv.Itoa(i)))
				}
			}
		}
		find(v, nil)
		if seqPath == nil {
			return "skip", ""
		}
		if cs.Deco == "aliases" {
			// the anchored scalar is the first leaf of the document: deleting the element that holds it would leave the aliases dangling
			first := append(append([]string{}, seqPath...), "#0")
			lp := []string{}
			for t := v; t.K == val.Seq || t.K == val.Map; {
				if len(t.Vals) == 0 {
					break
				}
				if t.K == val.Map {
					lp = append(lp, t.Keys[0].S)
				} else {
					lp = append(lp, "#0")
				}
				t = t.Vals[0]
			}
			if len(lp) >= len(first) && strings.Join(lp[:len(first)], "/") == strings.Join(first, "/") {
				return "skip", ""
			}
		}
		sp := c07PathExpr(seqPath)
		expr = sp + " += [" + p + "] | del(" + sp + "[0])"
		touched = []string{"/" + strings.Join(seqPath, "/")}
	case "append":
		// T is the appended entry only: the existing entries must stay as they are
		switch tv.K {
		case val.Seq:
			expr = p + ` += ["x"]`
			ext := extra
			if len(tv.Vals) == 0 {
				ext = 0
			}
			touched = []string{tpath + "/#" + strconv.Itoa(len(tv.Vals)+ext)}
		case val.Map:
			expr = p + ` += {"zz": 1}`
			touched = []string{tpath + "/zz"}
		default:
			return "skip", ""
		}
	case "copy-then-edit", "copy-then-rename-key":
		// copy the target next to itself, then edit the copy (a value of it, or the key node of one of its entries): the original
		// must not change with it
		if len(cs.Target) == 0 || strings.HasPrefix(cs.Target[len(cs.Target)-1], "#") || len(tv.Vals) == 0 {
			return "skip", ""
		}
		if cs.Update == "copy-then-rename-key" && tv.K != val.Map {
			return "skip", ""
		}
		parent := c07PathExpr(cs.Target[:len(cs.Target)-1])
		if parent == "." {
			parent = ""
		}
		first := ".[0]"
		if tv.K == val.Map {
			first = ".[" + strconv.Quote(tv.Keys[0].S) + "]"
		}
		expr = parent + ".copy = " + p + " | " + parent + ".copy" + first + ` = "edited"`
		if cs.Update == "copy-then-rename-key" {
			expr = parent + ".copy = " + p + " | (" + parent + ".copy" + first + ` | key) = "renamed"`
		}
		pp := "/" + strings.Join(cs.Target[:len(cs.Target)-1], "/")
		if len(cs.Target) == 1 {
			pp = ""
		}
		touched = []string{pp + "/copy"}
	case "arith":
		switch tv.K {
		case val.Int:
			expr = p + " |= . + 1"
		case val.Str:
			expr = p + ` |= . + "s"`
		default:
			return "skip", ""
		}
	case "create-below":
		if tv.K != val.Map {
			return "skip", ""
		}
		expr = p + ".created = 1"
		touched = []string{tpath + "/created"}
	case "create-beside":
		if len(cs.Target) == 0 || strings.HasPrefix(cs.Target[len(cs.Target)-1], "#") {
			return "skip", ""
		}
		parent := c07PathExpr(cs.Target[:len(cs.Target)-1])
		if parent == "." {
			parent = ""
		}
		expr = parent + ".created = 1"
		pp := "/" + strings.Join(cs.Target[:len(cs.Target)-1], "/")
		if len(cs.Target) == 1 {
			pp = ""
		}
		touched = []string{pp + "/created"}
	default:
		return "skip", ""
	}
	if cs.Deco == "foots" {
		// ground truth: an independent reading of the generated text must hold every generated comment as a foot comment
		// (the parser gives a comment to the *next* entry in several layouts, e.g. behind a quoted scalar)
		okGT := true
		var chk func(n *yaml.Node)
		chk = func(n *yaml.Node) {
			if strings.Contains(n.HeadComment, "foot of entry") || strings.Contains(n.LineComment, "foot of entry") {
				okGT = false
			}
			for _, c := range n.Content {
				chk(c)
			}
		}
		// read both ways: as a whole, and as yq's decoder sees it (header comment and separator taken off first) - the parser's
		// attribution of a comment depends on what precedes the document
		for _, t := range []string{text, strings.TrimPrefix(text, "# leading comment\n---\n")} {
			in, err := c05Nodes(t)
			if err != nil || len(in) != 1 {
				return "skip", "generated text unreadable"
			}
			chk(in[0])
		}
		if !okGT {
			return "skip", "not ground truth"
		}
	}
	base, berr, bpan := c07Run1(text, ".")
	if berr != nil || bpan != nil {
		return "skip", "identity fails"
	}
	// the identity itself must keep every comment, in order (otherwise the comparison has no baseline; that loss or displacement is C05's subject)
	comments := func(t string) string {
		var l []string
		for _, ln := range strings.Split(t, "\n") {
			if i := strings.Index(ln, "# "); i >= 0 {
				l = append(l, strings.TrimSpace(ln[i:]))
			}
		}
		return strings.Join(l, "\n")
	}
	if comments(base) != comments(text) {
		return "baseline-lossy", ""
	}
	upd, uerr, upan := c07Run1(text, expr)
	if upan != nil {
		return "panic", fmt.Sprintf("%s: %v", expr, upan)
	}
	if uerr != nil {
		return "skip", "update fails: " + uerr.Error()
	}
	bn, err1 := c05Nodes(base)
	un, err2 := c05Nodes(upd)
	if err1 != nil || len(bn) != 1 {
		return "skip", "baseline unreadable"
	}
	if err2 != nil {
		return "output-invalid", fmt.Sprintf("`%s` produces text that is not valid YAML (%v):\n%s--- `.` prints:\n%s", expr, err2, upd, base)
	}
	if len(un) != 1 {
		return "document-count", fmt.Sprintf("`%s` prints %d documents", expr, len(un))
	}
	// generator code of the target: "r" + child indices; comments carry the code of the node they were written for
	code, parentCode, lastChild := "r", "", false
	codeTarget := cs.Target
	if cs.Update == "copy-into-seq-then-delete-first" {
		// T is the sequence that receives the copy and loses its first element: its subtree's comments belong to T
		codeTarget = strings.Split(strings.TrimPrefix(touched[0], "/"), "/")
	}
	{
		t := v
		for _, sgm := range codeTarget {
			idx := -1
			if strings.HasPrefix(sgm, "#") {
				idx, _ = strconv.Atoi(sgm[1:])
			} else {
				for i, k := range t.Keys {
					if k.S == sgm {
						idx = i
					}
				}
			}
			parentCode = code
			lastChild = idx == len(t.Vals)-1
			code += "." + strconv.Itoa(idx)
			t = t.Vals[idx]
		}
	}
	ukind := cs.Update
	if ukind == "delete-via-key" {
		ukind = "delete"
	}
	if ukind == "copy-then-rename-key" {
		ukind = "copy-then-edit"
	}
	if ukind == "computed-index" {
		ukind = "scalar"
	}
	wholeTarget := ukind != "create-below" && ukind != "create-beside" && ukind != "append" && ukind != "copy-then-edit"
	commentInT := func(text string) bool {
		if !wholeTarget {
			return false
		}
		f := strings.Fields(text)
		if len(f) == 0 {
			return false
		}
		c := f[len(f)-1]
		if strings.HasPrefix(text, "# foot after ") {
			// written for the container named in it; the parser attaches it to that container's last entry, so it
			// belongs to T when the target is that last entry (or when the container is the target or below it)
			if lastChild && c == parentCode {
				return true
			}
			return c == code || strings.HasPrefix(c, code+".")
		}
		return c == code || strings.HasPrefix(c, code+".")
	}
	inT := func(path string) bool {
		pp := strings.TrimSuffix(path, "#key")
		for _, t := range touched {
			if pp == t || strings.HasPrefix(pp, t+"/") {
				return true
			}
		}
		return false
	}
	// containers whose own attributes may change because they receive or lose a child
	soft := map[string]bool{}
	switch ukind {
	case "create-below", "append":
		soft[tpath] = true
	case "create-beside", "delete", "copy-then-edit":
		pp := "/" + strings.Join(cs.Target[:len(cs.Target)-1], "/")
		if len(cs.Target) == 1 {
			pp = ""
		}
		soft[pp] = true
	}
	shift := func(path string) (string, bool) {
		if deletedIdx < 0 {
			return path, true
		}
		pre := deletedParent + "/#"
		if !strings.HasPrefix(path, pre) {
			return path, true
		}
		rest := path[len(pre):]
		num, tail := rest, ""
		if i := strings.IndexAny(rest, "/#"); i >= 0 {
			num, tail = rest[:i], rest[i:]
		}
		k, err := strconv.Atoi(num)
		if err != nil {
			return path, true
		}
		if k == deletedIdx {
			return "", false
		}
		if k > deletedIdx {
			k--
		}
		return pre + strconv.Itoa(k) + tail, true
	}
	stream := func(root *yaml.Node, isBase bool) []string {
		var out []string
		mute := false // inside the freshly created copy: its comments are copies too and belong to T
		cm := func(kind, text string) {
			for _, ln := range strings.Split(strings.TrimSpace(text), "\n") {
				if mute && ukind == "copy-into-seq-then-delete-first" {
					continue // inside the sequence that is T
				}
				if mute {
					// a comment inside the copy that was written for the copied subtree is a copy itself
					f := strings.Fields(ln)
					if len(f) > 0 && (f[len(f)-1] == code || strings.HasPrefix(f[len(f)-1], code+".")) {
						continue
					}
				}
				ln = strings.TrimSpace(ln)
				if ln != "" && !commentInT(ln) && ln != "# leading comment" {
					out = append(out, kind+"|"+ln)
				}
			}
		}
		var walk func(n *yaml.Node, path string)
		node := func(n *yaml.Node, path string) {
			if inT(path) && (isBase || ukind != "delete") {
				return // after a delete the target no longer exists: the path now names its successor
			}
			p2 := path
			if isBase {
				var ok bool
				if p2, ok = shift(path); !ok {
					return
				}
			}
			if soft[strings.TrimSuffix(path, "#key")] && !strings.HasSuffix(path, "#key") {
				out = append(out, "N|"+p2)
				return
			}
			alias := ""
			if n.Alias != nil {
				alias = n.Alias.Anchor
			}
			val := ""
			if n.Kind == yaml.ScalarNode {
				val = n.Value
			}
			out = append(out, fmt.Sprintf("N|%s|k%d t=%s st=%d a=%q al=%q v=%q", p2, n.Kind, n.ShortTag(), n.Style, n.Anchor, alias, val))
		}
		walk = func(n *yaml.Node, path string) {
			if ukind == "copy-into-seq-then-delete-first" && !isBase && inT(path) && !mute {
				mute = true
				defer func() { mute = false }()
			}
			cm("C", n.HeadComment)
			switch n.Kind {
			case yaml.DocumentNode:
				cm("L", n.LineComment)
				for _, c := range n.Content {
					walk(c, path)
				}
			case yaml.MappingNode:
				node(n, path)
				cm("L", n.LineComment)
				for i := 0; i+1 < len(n.Content); i += 2 {
					k := n.Content[i]
					sub := path + "/" + k.Value
					was := mute
					cm("C", k.HeadComment) // stands in front of the (new) key: not part of the copy
					if ukind == "copy-then-edit" && !isBase && inT(sub) {
						mute = true
					}
					node(k, sub+"#key")
					cm("L", k.LineComment)
					walk(n.Content[i+1], sub)
					cm("C", k.FootComment) // stands after the entry: a copy of the target's own foot comment, or the end of the enclosing map
					mute = was
				}
			case yaml.SequenceNode:
				node(n, path)
				cm("L", n.LineComment)
				for i, c := range n.Content {
					walk(c, path+"/#"+strconv.Itoa(i))
				}
			default:
				node(n, path)
				cm("L", n.LineComment)
			}
			cm("C", n.FootComment)
		}
		walk(root, "")
		return out
	}
	// the independent reader itself drops comments in some stacked layouts: a text it cannot read completely is no evidence
	readerComplete := func(text string, root *yaml.Node) bool {
		var all []string
		var w func(n *yaml.Node)
		w = func(n *yaml.Node) {
			all = append(all, n.HeadComment, n.LineComment, n.FootComment)
			for _, c := range n.Content {
				w(c)
			}
		}
		w(root)
		joined := strings.Join(all, "\n")
		for _, ln := range strings.Split(text, "\n") {
			if i := strings.Index(ln, "# "); i >= 0 {
				cm := strings.TrimSpace(ln[i:])
				if strings.Count(joined, cm) < strings.Count(text, cm) {
					return false
				}
			}
		}
		return true
	}
	if !readerComplete(base, bn[0]) || len(un) == 1 && !readerComplete(upd, un[0]) {
		return "reader-incomplete", ""
	}
	bs, us := stream(bn[0], true), stream(un[0], false)
	if strings.Join(bs, "\n") != strings.Join(us, "\n") {
		// first difference
		i := 0
		for i < len(bs) && i < len(us) && bs[i] == us[i] {
			i++
		}
		var x, y string
		if i < len(bs) {
			x = bs[i]
		}
		if i < len(us) {
			y = us[i]
		}
		kind := "presentation"
		switch {
		case strings.HasPrefix(x, "C|") || strings.HasPrefix(x, "L|") || strings.HasPrefix(y, "C|") || strings.HasPrefix(y, "L|"):
			kind = "comment"
		}
		return kind, fmt.Sprintf("`%s`: outside the target the two outputs differ; first difference at token %d\n  `.`:    %s\n  update: %s\nupdate prints:\n%s--- `.` prints:\n%s--- token streams outside the target (`.` / update):\n%s\n/\n%s", expr, i, x, y, upd, base, strings.Join(bs, " ; "), strings.Join(us, " ; "))
	}
	// document-level leading comment and separator
	if strings.HasPrefix(base, "# leading comment\n---\n") != strings.HasPrefix(upd, "# leading comment\n---\n") {
		return "leading-content", fmt.Sprintf("`%s`: leading comment/separator changed\nupdate prints:\n%s", expr, upd)
	}
	return "", ""
}

func c07Targets(v *val.V) [][]string {
	var out [][]string
	var walk func(n *val.V, path []string)
	walk = func(n *val.V, path []string) {
		out = append(out, append([]string{}, path...))
		for i, c := range n.Vals {
			if n.K == val.Map {
				walk(c, append(append([]string{}, path...), n.Keys[i].S))
			} else {
				walk(c, append(append([]string{}, path...), "#"+strconv.Itoa(i)))
			}
		}
	}
	walk(v, nil)
	return out
}

func c07Run(c *fw.Ctx) error {
	n := 4
	if c.Thorough() {
		n = 5
	}
	var shapes []*val.V
	for _, d := range val.Universe(n, []*val.V{val.IntV(1), val.StrV("a")}, []string{"k", "m"}) {
		if d.K == val.Seq || d.K == val.Map {
			shapes = append(shapes, d)
		}
	}
	for _, e := range []string{`{"k": [1, "a", 1], "m": {"k": "a", "m": 1}}`, `[{"k": 1, "m": "a"}, {"k": "a"}, 1]`, `{"k": {"m": [1, {"k": "a"}]}, "m": 1}`} {
		shapes = append(shapes, fromJSONText(e))
	}
	kinds := []string{"scalar", "subtree", "delete", "delete-via-key", "append", "arith", "create-below", "create-beside", "copy-then-edit", "copy-then-rename-key", "copy-into-seq-then-delete-first", "computed-index"}
	var kindDecos [][2]string
	for _, deco := range []string{"", "foots", "aliases"} {
		for _, k := range kinds {
			kindDecos = append(kindDecos, [2]string{k, deco})
		}
	}
	c.Res.Bound = fmt.Sprintf("3 decoration variants (foot comment after the last entry of nested collections; after every entry; a commented alias closing every collection) x %d fully decorated documents (every container shape of <= %d content nodes over {1, \"a\"} and keys {k, m}, plus 3 deeper ones) x every node as target x %d update kinds; and <= 3 sections (or documents) that each anchor their defaults under one of 2 names, every section updated through its alias (=, |=, del)", len(shapes), n, len(kinds))
	var idx int64
	// sections that define anchor names again: every assignment of 2 names to <= 3 sections, every section addressed through its alias
	for _, stream := range []bool{false, true} {
		for n := 1; n <= 3; n++ {
			for code := 0; code < 1<<n; code++ {
				if code&1 != 0 {
					continue // the first section's name is d (the other half is the same up to renaming)
				}
				names := make([]string, n)
				for i := range names {
					names[i] = []string{"d", "e"}[(code>>i)&1]
				}
				for sec := 0; sec < n; sec++ {
					for _, k := range []string{"scalar", "arith", "delete", "delete-two-named-backwards"} {
						idx++
						if !c.Mine(idx) {
							continue
						}
						cs := c07Case{Names: names, Section: sec, Stream: stream, Update: k}
						kind, detail := c07Check(cs)
						if kind == "skip" {
							continue
						}
						c.Eval(1)
						c.Validated(1)
						key := fmt.Sprintf("alias|%v|%d|%v|%s", names, sec, stream, k)
						c.Nontrivial(key)
						if kind == "" {
							c.Outcome(key)
							continue
						}
						c.Count("mismatch_"+kind, 1)
						redefined := "/names-unique"
						for i := 0; i < sec; i++ {
							if names[i] == names[sec] {
								redefined = "/name-defined-before"
							}
						}
						c.Violation(kind+"/"+k+redefined+map[bool]string{false: "/one-document", true: "/stream"}[stream], int64(n), cs, detail)
					}
				}
			}
		}
	}
	for si, sh := range shapes {
		shape := sh.JSON()
		for ti, tg := range c07Targets(sh) {
			for _, kd := range kindDecos {
				k, deco := kd[0], kd[1]
				idx++
				if !c.Mine(idx) || c.Expired() {
					continue
				}
				cs := c07Case{Shape: shape, Target: tg, Update: k, Deco: deco}
				kind, detail := c07Check(cs)
				if kind == "skip" {
					continue
				}
				if kind == "reader-incomplete" {
					c.Count("skipped_independent_reader_drops_a_comment", 1)
					continue
				}
				if kind == "baseline-lossy" {
					c.Count("skipped_identity_loses_or_moves_a_comment", 1)
					continue
				}
				c.Eval(1)
				c.Validated(1)
				key := fmt.Sprintf("%s|%v|%s|%s", shape, tg, k, deco)
				c.Nontrivial(key)
				if kind == "" {
					c.Outcome(key)
					if idx%3001 == 7 {
						c.Sample(map[string]interface{}{"case": cs, "document": c07Decorate(sh, cs.Deco)})
					}
					continue
				}
				c.Count("mismatch_"+kind, 1)
				// signature: clause, update kind, kind of the target value
				tv := "container"
				if len(tg) > 0 || true {
					t := sh
					for _, s := range tg {
						if strings.HasPrefix(s, "#") {
							i, _ := strconv.Atoi(s[1:])
							t = t.Vals[i]
						} else {
							for i, kk := range t.Keys {
								if kk.S == s {
									t = t.Vals[i]
									break
								}
							}
						}
					}
					tv = t.K.String()
					if len(tg) == 0 {
						tv = "root-" + tv
					}
				}
				pos := ""
				if len(tg) > 0 {
					if strings.HasPrefix(tg[len(tg)-1], "#") {
						pos = "/in-seq"
					} else {
						pos = "/in-map"
					}
				}
				dsig := ""
				if deco == "aliases" {
					dsig = "/deco=" + deco
				}
				c.Violation(kind+"/"+k+"/target="+tv+pos+dsig, int64(sh.Size())*1e6+int64(si*100+ti), cs, detail)
			}
		}
	}
	return nil
}

func c07Replay(raw json.RawMessage) (bool, string, error) {
	var cs c07Case
	if err := json.Unmarshal(raw, &cs); err != nil {
		return false, "", err
	}
	kind, detail := c07Check(cs)
	if kind == "" || kind == "skip" || kind == "baseline-lossy" || kind == "reader-incomplete" {
		return false, "", nil
	}
	return true, kind + ": " + detail, nil
}

func init() {
	registerLater(func() {
		fw.Register(&fw.Check{
			ID: "C07", Level: "model_checking",
			Rule: "fully decorated documents (unique head comment on every key and item, line comment on every scalar, foot comment after the last entry of every nested collection, alternating scalar styles, leading comment and `---`) for every container shape up to the node bound x every node as target x {scalar replace, subtree replace, delete, += append, |= arithmetic/string, create key below, create key beside, copy a subtree beside itself and edit the copy}; " +
				"per-path attribute tables (tag, style, anchor, alias, three comments, value) and sibling order read with yaml.v3's Node API from the output of `.` and of the update must be identical outside the target set (with the index shift after deleting a sequence element); non-trivial = distinct (document, target, update)",
			Assumptions: []string{"the target set T = the addressed node, its descendants and (create) the new key", "presentation is read through yaml.v3's Node API"},
			Budget: func(t string) time.Duration {
				if t == "thorough" {
					return 30 * time.Minute
				}
				return 3 * time.Minute
			},
			Run: c07Run, Replay: c07Replay,
		})
	})
}

// C07Text renders the decorated document of a shape (debugging aid).
func C07Text(shape, deco string) string { return c07Decorate(fromJSONText(shape), deco) }
