package checks

import (
	"encoding/json"
	"fmt"
	"strings"
	"time"

	"github.com/mikefarah/yq/v4/pkg/yqlib"

	"verif/mc/internal/fw"
	"verif/mc/internal/impl"
	"verif/mc/internal/val"
	"verif/mc/internal/yamlgen"
)

// C08 – conditions, keys and operands are evaluated read-only.
// Differential exploration without a reference: for every assignment-free expression e (the whole vocabulary, every operand
// position) and every styled/commented document d, evaluating `(e) as $x | .` and `.. | select(e)` must leave the complete
// node graph of d exactly as it was, must hand back the original nodes, and must print d as `.` prints it.

// T is a template expression: Tmpl with one %s per child.
type T struct {
	Tmpl string `json:"t"`
	Kids []*T   `json:"k,omitempty"`
}

func (t *T) String() string {
	if len(t.Kids) == 0 {
		return t.Tmpl
	}
	args := make([]interface{}, len(t.Kids))
	for i, k := range t.Kids {
		args[i] = k.String()
	}
	return fmt.Sprintf(t.Tmpl, args...)
}
func (t *T) Size() int {
	n := 1
	for _, k := range t.Kids {
		n += k.Size()
	}
	return n
}

var c08Leaves = strings.Split(strings.TrimSpace(`
.
.a
.b
.[0]
.[1]
.[-1]
.[]
..
...
.[1:]
.[:1]
.a.b
.a[0]
.a[]
.a.5
.3
.a.0
.c
.[3]
1
"a"
null
true
[]
{}
[1, 2]
{"a": 1}
length
keys
reverse
unique
flatten
flatten(1)
to_entries
from_entries
with_entries(.)
any
all
not
sort
sort_by(.a)
sort_by(.)
unique_by(.a)
group_by(.a)
min
max
pick(["a"])
pick([0])
omit(["a"])
omit([0])
to_json
to_json(0)
@json
to_yaml
@yaml
to_props
@props
to_xml
@xml
@csv
@tsv
@base64
@uri
@sh
from_json
from_yaml
from_props
@base64d
@urid
tag
kind
style
anchor
alias
path
key
parent
parents
line
column
document_index
file_index
filename
head_comment
line_comment
foot_comment
is_key
test("a")
match("a")
capture("(?P<x>a)")
sub("a"; "b")
upcase
downcase
trim
ltrimstr("a")
rtrimstr("a")
to_number
to_string
tostring
split("a")
join(",")
array_to_map
pivot
eval(".a")
getpath(["a"])
has("a")
has(0)
contains("a")
contains([1])
select(.)
select(.a)
map(.)
map(.a)
filter(.)
first
empty
to_unix
format_datetime("2006")
.. | tag
[..]
[.[]]
{"k": .}
{"k": .a}
.a // "x"
.a == 1
.a + 1
. * {"c": 1}
.a * .b
.[] | select(. == 1)
.[] as $i ireduce (null; $i.c // .)
.[] as $i ireduce (0; . + $i)
.. as $i ireduce ([]; . + [$i.a])
.[] as $i ireduce ({}; .c)
. as $i | $i.c
.[] as $i | [$i.c, $i[3]]
`), "\n")

var c08Unary = strings.Split(strings.TrimSpace(`
select(%s)
any_c(%s)
all_c(%s)
sort_by(%s)
group_by(%s)
unique_by(%s)
has(%s)
contains(%s)
pick(%s)
omit(%s)
map(%s)
filter(%s)
with_entries(%s)
[%s]
{"k": %s}
{(%s): 1}
join(%s)
split(%s)
test(%s)
%s | length
%s | keys
%s | flatten
%s | sort
%s | .[0]
%s | .[]
%s | .a
%s | reverse
%s | unique
%s | to_entries
%s | from_entries
%s | to_json
%s | min
.[] | %s
.a | %s
.. | %s
(%s) as $y | $y
select(%s | not)
(%s)["zz"]
(%s)[5]
({"k": 1}, %s)["zz"]
({"k": 1}, %s)[5]
(%s, {"k": 1})["zz"]
[{"k": 1}, %s] | .[1]["zz"]
.[] as $i ireduce ({}; . * {"v": ($i | %s)})
. as $i ireduce ({}; . * {"v": ($i | %s)})
`), "\n")

var c08Binary = []string{"|", ",", "+", "-", "*", "/", "%", "==", "!=", "<", "<=", ">", ">=", "and", "or", "//", "*+", "*d", "*?", "*n"}
var c08Partners = []string{".", ".a", "1", `"a"`, "[]", ".[0]", ".c"}

var c08HandDocs = []string{
	"# lead\na: &x {p: 1} # la\nb: *x # lb\nc:\n  <<: *x\n  q: 2\n",
	"- &s [1, 2] # l0\n- *s\n- &m {k: v}\n- {<<: *m, r: 1}\n",
	"a: '{\"j\": [1, 2]}' # json text\nb: \"k: v\\n\" # yaml text\nc: YQ== # base64\nd: a%20b\ne: k=v\n",
	"a: [[1, [2]], [3]] # nested\nb: [{a: 2, b: x}, {a: 1, b: y}, {a: 1}]\nc: ~\n",
	"a: !custom 1 # tagged\nb: !!str 2\nc: |\n  lit\nd: >\n  fold\ne: 'sq'\nf: \"dq\"\n",
	"[{key: a, value: 1}, {key: b, value: [1, 0]}] # entries\n",
	"- [a, 1]\n- [b, 2] # rows\n",
	"a: 2021-01-01T00:00:00Z\nb: 1.5\nc: 0x10\nd: -1\ne: ''\n",
	// entries that lack a field the consumer looks for
	"[{key: a, value: 1}, {key: b}, {value: 2}] # entries\n",
	"e: [{key: a}, {key: b, value: ~}]\nf: [{name: x}]\n",
	// an anchored value that itself holds an alias and a further anchor, aliased twice
	"y: &y 1\na: &x {p: *y, q: &in 5} # la\nb: *x\nc: [*x, *in]\n",
	// a merged anchor whose own entries hold an anchor and an alias to it
	"a: &x {p: &in {k: 1}, r: *in} # la\nc:\n  <<: *x\n  q: 2\nb: [{<<: [*x]}]\n",
}

type c08Case struct {
	Expr *T     `json:"expr"`
	Form string `json:"form"`
	Doc  string `json:"doc"`
}

func c08Docs(tier string) []string {
	var out []string
	n := 2
	if tier == "thorough" {
		n = 3
	}
	for _, d := range val.Universe(n, val.Sigma(), []string{"a", "b"}) {
		out = append(out, yamlgen.Decorated(d))
	}
	if tier != "thorough" {
		for _, h := range []string{`{"a": [1, "a"], "b": null}`, `[{"a": 1}, {"a": 0}]`, `{"a": {"b": 1}}`, `[[1], [0]]`, `[null, 1, "a"]`, `{"b": 0, "a": 1}`, `[1, 1, 0]`, `{"a": [], "b": {}}`} {
			out = append(out, yamlgen.Decorated(fromJSONText(h)))
		}
	}
	out = append(out, c08HandDocs...)
	return out
}

func c08Exprs(tier string) []*T {
	var leaves []*T
	for _, l := range c08Leaves {
		if _, err, p := impl.Parse(l); err != nil || p != nil {
			continue // not in this version's vocabulary
		}
		leaves = append(leaves, &T{Tmpl: l})
	}
	var out []*T
	out = append(out, leaves...)
	for _, u := range c08Unary {
		for _, l := range leaves {
			out = append(out, &T{Tmpl: u, Kids: []*T{{Tmpl: "(" + l.Tmpl + ")"}}})
		}
	}
	for _, b := range c08Binary {
		partners := c08Partners
		if strings.HasPrefix(b, "*") {
			// a literal map that names keys the hand-written documents reach only through a merge key
			partners = append(append([]string{}, c08Partners...), `{"p": 5, "k": "w", "q": [9]}`)
		}
		for _, l := range leaves {
			for _, p := range partners {
				out = append(out, &T{Tmpl: "(%s) " + b + " (%s)", Kids: []*T{l, {Tmpl: p}}})
				out = append(out, &T{Tmpl: "(%s) " + b + " (%s)", Kids: []*T{{Tmpl: p}, l}})
			}
		}
	}
	if tier == "thorough" {
		// every pair of atoms in nested operand positions
		for _, u := range c08Unary {
			for _, u2 := range c08Unary[:19] {
				for _, l := range leaves {
					out = append(out, &T{Tmpl: u, Kids: []*T{{Tmpl: "(" + u2 + ")", Kids: []*T{{Tmpl: "(" + l.Tmpl + ")"}}}}})
				}
			}
		}
	}
	return out
}

// c08Check evaluates one form of e on a fresh decode of doc; returns a mismatch kind or "".
func c08Check(form string, parsed, ident *yqlib.ExpressionNode, doc string) (kind, detail, outcome string) {
	roots, err, pan := impl.DecodeYAML(doc)
	if err != nil || pan != nil || len(roots) != 1 {
		panic(fmt.Sprintf("harness: document does not decode: %q %v %v", doc, err, pan))
	}
	root := roots[0]
	before := impl.Dump(false, root)
	wantOut, _, _ := impl.PrintYAML([]*yqlib.CandidateNode{root})
	// the nodes that exist before
	orig := map[*yqlib.CandidateNode]bool{}
	var mark func(n *yqlib.CandidateNode)
	mark = func(n *yqlib.CandidateNode) {
		if n == nil || orig[n] {
			return
		}
		orig[n] = true
		for _, c := range n.Content {
			mark(c)
		}
	}
	mark(root)
	res, eerr, epan := impl.Eval(parsed, root)
	if epan != nil {
		outcome = "panic"
	} else if eerr != nil {
		outcome = "error"
	} else {
		outcome = fmt.Sprintf("%d results", len(res))
	}
	after := impl.Dump(false, root)
	if after != before {
		return "graph-changed", "node graph of the input differs after evaluation:\n" + firstDiff(before, after), outcome
	}
	if epan != nil || eerr != nil {
		return "", "", outcome
	}
	switch form {
	case "as":
		// the binding loops once per result of e (once when e is empty): every result must be the input node itself
		for _, r := range res {
			if r != root {
				return "as-result", fmt.Sprintf("`(e) as $x | .` yielded a node that is not the input node (%d results)", len(res)), outcome
			}
		}
		if len(res) == 0 {
			return "as-result", "`(e) as $x | .` yielded nothing", outcome
		}
	case "select":
		for _, r := range res {
			if !orig[r] {
				return "select-result", "`.. | select(e)` yielded a node that is not one of the input's nodes", outcome
			}
		}
	}
	gotOut, perr, ppan := impl.PrintYAML([]*yqlib.CandidateNode{root})
	if perr != nil || ppan != nil || gotOut != wantOut {
		return "print-changed", fmt.Sprintf("document prints differently afterwards:\n--- before\n%s--- after\n%s(err %v %v)", wantOut, gotOut, perr, ppan), outcome
	}
	_ = ident
	return "", "", outcome
}

func firstDiff(a, b string) string {
	la, lb := strings.Split(a, "\n"), strings.Split(b, "\n")
	for i := 0; i < len(la) || i < len(lb); i++ {
		var x, y string
		if i < len(la) {
			x = la[i]
		}
		if i < len(lb) {
			y = lb[i]
		}
		if x != y {
			return fmt.Sprintf("  before: %s\n  after:  %s", x, y)
		}
	}
	return "(no line differs)"
}

var c08Forms = []struct{ name, tmpl string }{{"as", "(%s) as $x | ."}, {"select", ".. | select(%s)"}}

func c08Eval(t *T, form string, doc string) (kind, detail, outcome string, parsed bool) {
	for _, f := range c08Forms {
		if f.name != form {
			continue
		}
		p, err, pan := impl.Parse(fmt.Sprintf(f.tmpl, t.String()))
		if err != nil || pan != nil {
			return "", "", "", false
		}
		k, d, o := c08Check(form, p, nil, doc)
		return k, d, o, true
	}
	return "", "", "", false
}

func c08Reduce(t *T, form, doc, kind string) *T {
	budget := 150
	for changed := true; changed && budget > 0; {
		changed = false
		var cands []*T
		// replace the root by a child (stripped of its added parentheses), or a child by `.`
		for _, k := range t.Kids {
			cands = append(cands, k)
		}
		for i := range t.Kids {
			if t.Kids[i].Tmpl != "." {
				c := &T{Tmpl: t.Tmpl, Kids: append([]*T{}, t.Kids...)}
				c.Kids[i] = &T{Tmpl: "."}
				cands = append(cands, c)
			}
			for j := range t.Kids[i].Kids {
				c := &T{Tmpl: t.Tmpl, Kids: append([]*T{}, t.Kids...)}
				c.Kids[i] = t.Kids[i].Kids[j]
				cands = append(cands, c)
			}
		}
		for _, c := range cands {
			budget--
			if k, _, _, ok := c08Eval(c, form, doc); ok && k == kind {
				t = c
				changed = true
				break
			}
		}
	}
	return t
}

func c08Run(c *fw.Ctx) error {
	exprs := c08Exprs(c.Tier)
	docs := c08Docs(c.Tier)
	c.Res.Bound = fmt.Sprintf("%d assignment-free expressions (every vocabulary atom in every operand position) x 2 forms x %d styled documents", len(exprs), len(docs))
	reduced := 0
	for i, t := range exprs {
		if !c.Mine(int64(i)) {
			continue
		}
		if c.Expired() {
			break
		}
		text := t.String()
		for _, f := range c08Forms {
			p, err, pan := impl.Parse(fmt.Sprintf(f.tmpl, text))
			if err != nil || pan != nil {
				c.Count("not_parseable", 1)
				continue
			}
			for di, d := range docs {
				kind, detail, outcome := c08Check(f.name, p, nil, d)
				c.Eval(1)
				c.Validated(1)
				c.Outcome(fmt.Sprintf("%s/%d/%s", f.name, di, outcome))
				if outcome != "error" && outcome != "panic" && outcome != "0 results" {
					c.Nontrivial(f.name + "\x00" + text + "\x00" + d)
					if i%977 == 3 && di%50 == 1 {
						c.Sample(map[string]string{"expr": fmt.Sprintf(f.tmpl, text), "doc": d, "outcome": outcome})
					}
				}
				if kind == "" {
					continue
				}
				c.Count("mismatch_"+kind, 1)
				if reduced > 3000 {
					c.Res.Exhaustive = false
					c.Count("mismatches_not_reduced", 1)
					continue
				}
				reduced++
				rt := c08Reduce(t, f.name, d, kind)
				_, rdetail, _, _ := c08Eval(rt, f.name, d)
				if rdetail == "" {
					rdetail = detail
				}
				c.Violation(kind+":"+f.name+":"+rt.String(), int64(rt.Size())*1000+int64(len(d)), c08Case{rt, f.name, d},
					fmt.Sprintf("%s on\n%s%s  (first seen with %q)", fmt.Sprintf(f.tmpl, rt.String()), d, rdetail, text))
			}
		}
	}
	return nil
}

func c08Replay(raw json.RawMessage) (bool, string, error) {
	var cs c08Case
	if err := json.Unmarshal(raw, &cs); err != nil {
		return false, "", err
	}
	k, d, _, ok := c08Eval(cs.Expr, cs.Form, cs.Doc)
	if !ok || k == "" {
		return false, "", nil
	}
	return true, fmt.Sprintf("%s (%s form) on\n%s: %s: %s", cs.Expr.String(), cs.Form, cs.Doc, k, d), nil
}

func init() {
	registerLater(func() {
		fw.Register(&fw.Check{
			ID: "C08", Level: "model_checking",
			Rule: "every atom of the assignment-free operator vocabulary, alone, in every operand position of the listed unary forms and on both sides of every binary operator (thorough: nested pairs), " +
				"in the forms `(e) as $x | .` and `.. | select(e)`, on every styled/commented document of U(3) (quick: U(2) plus eight 3-5 node shapes) plus alias/merge/encoded-text documents; oracle: the complete node-graph dump of the input is identical before and after, " +
				"results are the original nodes, the document prints as before; non-trivial = evaluation that neither errors nor yields an empty stream; distinct by (form, expression, document)",
			Assumptions: []string{"operators that are in-place by design are excluded as the statement excludes them: assignments, del, with, map_values, explode, sort_keys, style=/tag=/anchor=/comment= forms; environment readers (load, env, now, shuffle) excluded"},
			Budget: func(t string) time.Duration {
				if t == "thorough" {
					return 30 * time.Minute
				}
				return 4 * time.Minute
			},
			Run: c08Run, Replay: c08Replay,
		})
	})
}
