package checks

import (
	"encoding/json"
	"fmt"
	"strings"
	"time"

	"github.com/mikefarah/yq/v4/pkg/yqlib"

	"verif/mc/internal/fw"
	"verif/mc/internal/impl"
)

// C09 – parsing honours operator precedence, grouping and layout-insensitivity; malformed input is rejected.
// Exhaustive over token sequences: every ordered pair and triple of binary operator spellings in every nesting context
// (tree of the bare spelling == tree of the spelling bracketed by a pinned copy of the precedence relation), every
// single and double layout insertion at every token boundary, redundant parentheses, every bracket deletion/duplication
// and every misplaced binary operator.

// pinned precedence relation: equivalence classes in ascending binding strength (numbers themselves are not pinned)
var c09Classes = [][]string{
	{","},
	{"and", "or"},
	{"|"},
	{"=", "|=", "+=", "-=", "==", "!=", "<", "<=", ">", ">="},
	{"*", "*=", "/", "%", "+", "-", "//", "*+"},
}

func c09ClassOf(op string) int {
	for i, c := range c09Classes {
		for _, o := range c {
			if o == op {
				return i
			}
		}
	}
	return -1
}

func c09Ops() []string {
	var out []string
	for _, c := range c09Classes {
		out = append(out, c...)
	}
	return out
}

var c09Contexts = []string{"%s", "( %s )", "[ %s ]", `{ "k": %s }`, "select( %s )", "map( %s )", ".x as $v | ( %s )", ".[] as $v ireduce ( 0 ; %s )", "with( .q ; %s )", "[ .z , %s ]"}

// treeDump renders a parsed expression through exported fields only.
func treeDump(n *yqlib.ExpressionNode) string {
	if n == nil {
		return "_"
	}
	op := n.Operation
	var sb strings.Builder
	sb.WriteString(op.OperationType.Type)
	sv := op.StringValue
	val := fmt.Sprintf("%v", op.Value)
	switch op.OperationType.Type {
	case "VALUE", "STRING_INT", "TRAVERSE_PATH", "GET_VARIABLE", "ENV":
	default:
		sv = strings.Join(strings.Fields(sv), "")
		val = strings.Join(strings.Fields(val), "")
	}
	fmt.Fprintf(&sb, "<%s|%s|%#v|%v", sv, val, op.Preferences, op.UpdateAssign)
	if op.CandidateNode != nil {
		fmt.Fprintf(&sb, "|%s:%s", op.CandidateNode.Tag, op.CandidateNode.Value)
	}
	sb.WriteString(">(" + treeDump(n.LHS) + "," + treeDump(n.RHS) + ")")
	return sb.String()
}

// TreeOf dumps the parsed tree of an expression (debugging aid: `mc tree '<expr>'`).
func TreeOf(expr string) string { t, _ := c09Tree(expr); return t }

func c09Tree(expr string) (string, bool) {
	n, err, pan := impl.Parse(expr)
	if pan != nil {
		return fmt.Sprintf("PANIC %v", pan), false
	}
	if err != nil {
		return "ERROR " + err.Error(), false
	}
	return treeDump(n), true
}

type c09Case struct {
	Kind string `json:"kind"`
	A    string `json:"a"`            // the spelling under test
	B    string `json:"b,omitempty"`  // what it must mean (same tree), or "" when it must be rejected
	B2   string `json:"b2,omitempty"` // an alternative accepted meaning (ties)
}

// c09Check returns "" or a mismatch description.
func c09Check(cs c09Case) string {
	ta, oka := c09Tree(cs.A)
	switch cs.Kind {
	case "reject":
		if oka {
			return fmt.Sprintf("%q is accepted (parsed as %s)", cs.A, clip(ta, 200))
		}
		if strings.HasPrefix(ta, "PANIC") {
			return fmt.Sprintf("%q: %s", cs.A, ta)
		}
		return ""
	case "postfix":
		// a path element directly behind a term means the same as behind the bracketed term
		tb, okb := c09Tree(cs.B)
		if !okb {
			return ""
		}
		if !oka {
			return fmt.Sprintf("%q is rejected (%s) but %q parses", cs.A, ta, cs.B)
		}
		if ta != tb {
			return fmt.Sprintf("%q does not parse like %q:\n  got  %s\n  want %s", cs.A, cs.B, clip(ta, 400), clip(tb, 400))
		}
		return ""
	case "verbatim-set":
		// texts that differ only in white space and are nevertheless different programs (white space inside a string literal, a comment
		// that ends at the line break or runs to the end): all parsed by this one process, in both orders, each must yield its own result
		set := [][2]string{
			{`"a b"`, `"a b"`}, {`"a  b"`, `"a  b"`}, {"\"a\tb\"", "\"a\\tb\""}, {`" a"`, `" a"`}, {`"a "`, `"a "`}, {`"a   b"`, `"a   b"`},
			{".a # c\n| .b", "i:1"}, {".a # c | .b", `{"b":i:1}`}, {".a #c\n | .b", "i:1"}, {".a # c\t| .b", `{"b":i:1}`},
			{`.a | "x # y"`, `"x # y"`}, {`.a | "x #  y"`, `"x #  y"`}, {"\"p\n q\"", "\"p\\n q\""}, {"\"p\n  q\"", "\"p\\n  q\""},
		}
		for _, order := range []bool{true, false} {
			for k := range set {
				it := set[k]
				if !order {
					it = set[len(set)-1-k]
				}
				p, err, pan := impl.Parse(it[0])
				if err != nil || pan != nil {
					return fmt.Sprintf("%q is rejected: %v %v", it[0], err, pan)
				}
				res, eerr, epan := impl.Eval(p, impl.Doc(fromJSONText(`{"a": {"b": 1}}`)))
				if eerr != nil || epan != nil || len(res) != 1 {
					return fmt.Sprintf("%q does not yield one result: %v %v", it[0], eerr, epan)
				}
				if got := impl.ToV(res[0]).String(); got != it[1] {
					return fmt.Sprintf("%q yields %s, expected %s (parsed after the other members of the set)", it[0], got, it[1])
				}
			}
		}
		return ""
	case "same-result":
		// two spellings that differ in redundant brackets inside a string interpolation: the expression text is taken apart when it
		// is evaluated, so they are compared by what they yield
		var outs [2]string
		for i, e := range []string{cs.A, cs.B} {
			p, err, pan := impl.Parse(e)
			if err != nil || pan != nil {
				outs[i] = fmt.Sprintf("PARSE-ERROR %v %v", err, pan)
				continue
			}
			for _, d := range []string{`{"a": 1, "b": [2, 3], "c": {"d": "x"}}`, `{"a": "s", "b": null}`} {
				res, eerr, epan := impl.Eval(p, impl.Doc(fromJSONText(d)))
				switch {
				case epan != nil:
					outs[i] += fmt.Sprintf("PANIC %v;", epan)
				case eerr != nil:
					outs[i] += "ERROR;"
				default:
					for _, r := range res {
						outs[i] += impl.ToV(r).String() + ";"
					}
				}
				outs[i] += "|"
			}
		}
		if strings.Contains(outs[1], "PARSE-ERROR") {
			return "" // the reference spelling is not in this version's vocabulary
		}
		if outs[0] != outs[1] {
			return fmt.Sprintf("%q yields %s but %q yields %s", cs.A, outs[0], cs.B, outs[1])
		}
		return ""
	default:
		tb, okb := c09Tree(cs.B)
		if !okb {
			return fmt.Sprintf("harness: reference spelling %q does not parse: %s", cs.B, tb)
		}
		if !oka {
			return fmt.Sprintf("%q is rejected (%s) but %q parses", cs.A, ta, cs.B)
		}
		if ta == tb {
			return ""
		}
		if cs.B2 != "" {
			if tb2, ok := c09Tree(cs.B2); ok && tb2 == ta {
				return ""
			}
		}
		return fmt.Sprintf("%q does not parse like %q:\n  got  %s\n  want %s", cs.A, cs.B, clip(ta, 400), clip(tb, 400))
	}
}

// c09Group builds the fully bracketed spelling of operands/ops by precedence climbing over the pinned classes; ties group to the right (tieRight) or left.
func c09Group(operands []string, ops []string, tieRight bool) string {
	if len(ops) == 0 {
		return operands[0]
	}
	// find the loosest operator; among ties the leftmost (right grouping) or rightmost (left grouping) splits last
	best := 0
	for i := range ops {
		ci, cb := c09ClassOf(ops[i]), c09ClassOf(ops[best])
		if ci < cb || (ci == cb && !tieRight) {
			best = i
		}
	}
	l := c09Group(operands[:best+1], ops[:best], tieRight)
	r := c09Group(operands[best+1:], ops[best+1:], tieRight)
	if best > 0 {
		l = "( " + l + " )"
	}
	if best < len(ops)-1 {
		r = "( " + r + " )"
	}
	return l + " " + ops[best] + " " + r
}

var c09LayoutExprs = [][]string{
	{".a", "|", ".b"}, {".a", ",", ".b"}, {".a", "+", "1"}, {".a", "==", `"x"`}, {".a", "//", ".b"}, {".a", "and", ".b"}, {".a", "=", "3"}, {".a", "|=", ".", "+", "1"},
	{"select(", ".a", "==", "1", ")"}, {"map(", ".", "+", "1", ")"}, {"[", ".a", ",", ".b", "]"}, {"{", `"k"`, ":", ".a", "}"}, {"(", ".a", "|", ".b", ")"},
	{".[]", "|", "select(", ".a", ")", "|", ".b"}, {".a", "as", "$x", "|", "$x", "+", "1"}, {".[]", "as", "$i", "ireduce", "(", "0", ";", ".", "+", "$i", ")"},
	{"length"}, {".a", "|", "length"}, {"..", "|", "select(", "tag", "==", `"!!int"`, ")"}, {"with(", ".a", ";", ".b", "=", "1", ")"}, {"del(", ".a", ")"},
	{"sort_by(", ".a", ")"}, {"has(", `"a"`, ")"}, {".a", "*", ".b"}, {".a", "*+", ".b"}, {"1", "-", "2"}, {"true", "or", "false"}, {"null"}, {`"a b"`}, {".a[0]"}, {".a.b"},
	{`.["a"]`}, {".[", "0", "]"}, {".a", "|", "to_json"}, {"[", ".[]", "|", ".a", "]"}, {".a", "<", "3", "and", ".b", ">=", "1"}, {"not"}, {".a", "|", "not"}, {"to_entries"},
	{"group_by(", ".a", ")", "|", ".[0]"}, {".a", "+=", "1"}, {".a", "-=", "1"}, {".a", "*=", ".b"}, {"(", ".a", ",", ".b", ")", "=", "1"}, {".a", "!=", "null"}, {"1.5", "/", "2"}, {"-1", "%", "2"},
}

// c09Terms: one spelling per kind of term; c09NoPostfix lists the (term, path element) pairs that are not expressions in the pinned
// grammar (only paths, variables, brackets and operators whose type sets CheckForPostTraverse take a path element directly).
var c09Terms = []string{
	".a", ".[0]", ".[]", "..", "$x", "parent", "parent(2)", "key", "path", "keys", "length", "to_entries", "flatten", "flatten(1)", "to_json", "to_json(1)", "to_yaml(1)", "to_xml(1)", "from_json", "from_yaml",
	"env(HOME)", "strenv(HOME)", `"a"`, "1", "true", "null", "[]", "{}", "[.a]", `{"k": 1}`, "select(.a)", "map(.a)", "sort_by(.a)", `has("a")`, "filename", "file_index", "document_index", "now", "tag", "kind",
	"anchor", "line", "column", "explode(.)", "with_entries(.)", "to_props", "@json", "@base64", "@base64d", "sort", "reverse", "unique", "any", "all", "not", "min", "max", "pivot", "upcase", "trim", `omit(["a"])`, `pick(["a"])`,
	`sub("a"; "b")`, `test("a")`, `split(",")`, `join(",")`, `load("f")`, "splitDoc", "sort_keys(.)", "group_by(.a)", "unique_by(.a)", "del(.a)", "with(.a; .b = 1)", "eval(.a)", "to_number", "to_string", "map_values(.)",
	"filter(.a)", "any_c(.a)", "all_c(.a)", "array_to_map", "from_entries", "comments", "line_comment", "head_comment", "foot_comment", "style", "alias", "envsubst", "shuffle", "first", "to_unix", "from_unix", "tz(\"UTC\")",
}

var c09Postfixes = []string{".k", ".k.j", "[0]", "[]", `["k"]`, `.["k"]`, "[0].k", ".k[0]", "[1:]", ".k?"}

var c09NoPostfix = map[string]bool{
	`...k`: true, `...k.j`: true, `..[0]`: true, `..[]`: true, `..["k"]`: true, `...["k"]`: true, `..[0].k`: true, `...k[0]`: true, `..[1:]`: true, `...k?`: true,
	`parent[0]`: true, `parent[]`: true, `parent["k"]`: true, `parent[0].k`: true, `parent[1:]`: true, `parent(2)[0]`: true, `parent(2)[]`: true, `parent(2)["k"]`: true,
	`parent(2)[0].k`: true, `parent(2)[1:]`: true, `key.k`: true, `key.k.j`: true, `key[0]`: true, `key[]`: true, `key["k"]`: true, `key.["k"]`: true, `key[0].k`: true,
	`key.k[0]`: true, `key[1:]`: true, `key.k?`: true, `length.k`: true, `length.k.j`: true, `length[0]`: true, `length[]`: true, `length["k"]`: true, `length.["k"]`: true,
	`length[0].k`: true, `length.k[0]`: true, `length[1:]`: true, `length.k?`: true, `to_json.k`: true, `to_json.k.j`: true, `to_json[0]`: true, `to_json[]`: true,
	`to_json["k"]`: true, `to_json.["k"]`: true, `to_json[0].k`: true, `to_json.k[0]`: true, `to_json[1:]`: true, `to_json.k?`: true, `to_json(1).k`: true,
	`to_json(1).k.j`: true, `to_json(1)[0]`: true, `to_json(1)[]`: true, `to_json(1)["k"]`: true, `to_json(1).["k"]`: true, `to_json(1)[0].k`: true,
	`to_json(1).k[0]`: true, `to_json(1)[1:]`: true, `to_json(1).k?`: true, `to_yaml(1).k`: true, `to_yaml(1).k.j`: true, `to_yaml(1)[0]`: true, `to_yaml(1)[]`: true,
	`to_yaml(1)["k"]`: true, `to_yaml(1).["k"]`: true, `to_yaml(1)[0].k`: true, `to_yaml(1).k[0]`: true, `to_yaml(1)[1:]`: true, `to_yaml(1).k?`: true, `to_xml(1).k`: true,
	`to_xml(1).k.j`: true, `to_xml(1)[0]`: true, `to_xml(1)[]`: true, `to_xml(1)["k"]`: true, `to_xml(1).["k"]`: true, `to_xml(1)[0].k`: true, `to_xml(1).k[0]`: true,
	`to_xml(1)[1:]`: true, `to_xml(1).k?`: true, `from_json.k`: true, `from_json.k.j`: true, `from_json[0]`: true, `from_json[]`: true, `from_json["k"]`: true,
	`from_json.["k"]`: true, `from_json[0].k`: true, `from_json.k[0]`: true, `from_json[1:]`: true, `from_json.k?`: true, `from_yaml.k`: true, `from_yaml.k.j`: true,
	`from_yaml[0]`: true, `from_yaml[]`: true, `from_yaml["k"]`: true, `from_yaml.["k"]`: true, `from_yaml[0].k`: true, `from_yaml.k[0]`: true, `from_yaml[1:]`: true,
	`from_yaml.k?`: true, `"a".k`: true, `"a".k.j`: true, `"a"[0]`: true, `"a"[]`: true, `"a"["k"]`: true, `"a".["k"]`: true, `"a"[0].k`: true, `"a".k[0]`: true,
	`"a"[1:]`: true, `"a".k?`: true, `1.k`: true, `1.k.j`: true, `1[0]`: true, `1[]`: true, `1["k"]`: true, `1.["k"]`: true, `1[0].k`: true, `1.k[0]`: true, `1[1:]`: true,
	`1.k?`: true, `true.k`: true, `true.k.j`: true, `true[0]`: true, `true[]`: true, `true["k"]`: true, `true.["k"]`: true, `true[0].k`: true, `true.k[0]`: true,
	`true[1:]`: true, `true.k?`: true, `null.k`: true, `null.k.j`: true, `null[0]`: true, `null[]`: true, `null["k"]`: true, `null.["k"]`: true, `null[0].k`: true,
	`null.k[0]`: true, `null[1:]`: true, `null.k?`: true, `has("a")[0]`: true, `has("a")[]`: true, `has("a")["k"]`: true, `has("a")[0].k`: true, `has("a")[1:]`: true,
	`filename.k`: true, `filename.k.j`: true, `filename[0]`: true, `filename[]`: true, `filename["k"]`: true, `filename.["k"]`: true, `filename[0].k`: true,
	`filename.k[0]`: true, `filename[1:]`: true, `filename.k?`: true, `file_index.k`: true, `file_index.k.j`: true, `file_index[0]`: true, `file_index[]`: true,
	`file_index["k"]`: true, `file_index.["k"]`: true, `file_index[0].k`: true, `file_index.k[0]`: true, `file_index[1:]`: true, `file_index.k?`: true,
	`document_index.k`: true, `document_index.k.j`: true, `document_index[0]`: true, `document_index[]`: true, `document_index["k"]`: true, `document_index.["k"]`: true,
	`document_index[0].k`: true, `document_index.k[0]`: true, `document_index[1:]`: true, `document_index.k?`: true, `now.k`: true, `now.k.j`: true, `now[0]`: true,
	`now[]`: true, `now["k"]`: true, `now.["k"]`: true, `now[0].k`: true, `now.k[0]`: true, `now[1:]`: true, `now.k?`: true, `tag.k`: true, `tag.k.j`: true, `tag[0]`: true,
	`tag[]`: true, `tag["k"]`: true, `tag.["k"]`: true, `tag[0].k`: true, `tag.k[0]`: true, `tag[1:]`: true, `tag.k?`: true, `kind.k`: true, `kind.k.j`: true,
	`kind[0]`: true, `kind[]`: true, `kind["k"]`: true, `kind.["k"]`: true, `kind[0].k`: true, `kind.k[0]`: true, `kind[1:]`: true, `kind.k?`: true, `anchor.k`: true,
	`anchor.k.j`: true, `anchor[0]`: true, `anchor[]`: true, `anchor["k"]`: true, `anchor.["k"]`: true, `anchor[0].k`: true, `anchor.k[0]`: true, `anchor[1:]`: true,
	`anchor.k?`: true, `line.k`: true, `line.k.j`: true, `line[0]`: true, `line[]`: true, `line["k"]`: true, `line.["k"]`: true, `line[0].k`: true, `line.k[0]`: true,
	`line[1:]`: true, `line.k?`: true, `column.k`: true, `column.k.j`: true, `column[0]`: true, `column[]`: true, `column["k"]`: true, `column.["k"]`: true,
	`column[0].k`: true, `column.k[0]`: true, `column[1:]`: true, `column.k?`: true, `with_entries(.)[0]`: true, `with_entries(.)[]`: true, `with_entries(.)["k"]`: true,
	`with_entries(.)[0].k`: true, `with_entries(.)[1:]`: true, `to_props.k`: true, `to_props.k.j`: true, `to_props[0]`: true, `to_props[]`: true, `to_props["k"]`: true,
	`to_props.["k"]`: true, `to_props[0].k`: true, `to_props.k[0]`: true, `to_props[1:]`: true, `to_props.k?`: true, `@json.k`: true, `@json.k.j`: true, `@json[0]`: true,
	`@json[]`: true, `@json["k"]`: true, `@json.["k"]`: true, `@json[0].k`: true, `@json.k[0]`: true, `@json[1:]`: true, `@json.k?`: true, `@base64.k`: true,
	`@base64.k.j`: true, `@base64[0]`: true, `@base64[]`: true, `@base64["k"]`: true, `@base64.["k"]`: true, `@base64[0].k`: true, `@base64.k[0]`: true,
	`@base64[1:]`: true, `@base64.k?`: true, `@base64d.k`: true, `@base64d.k.j`: true, `@base64d[0]`: true, `@base64d[]`: true, `@base64d["k"]`: true,
	`@base64d.["k"]`: true, `@base64d[0].k`: true, `@base64d.k[0]`: true, `@base64d[1:]`: true, `@base64d.k?`: true, `any.k`: true, `any.k.j`: true, `any[0]`: true,
	`any[]`: true, `any["k"]`: true, `any.["k"]`: true, `any[0].k`: true, `any.k[0]`: true, `any[1:]`: true, `any.k?`: true, `all.k`: true, `all.k.j`: true, `all[0]`: true,
	`all[]`: true, `all["k"]`: true, `all.["k"]`: true, `all[0].k`: true, `all.k[0]`: true, `all[1:]`: true, `all.k?`: true, `not.k`: true, `not.k.j`: true, `not[0]`: true,
	`not[]`: true, `not["k"]`: true, `not.["k"]`: true, `not[0].k`: true, `not.k[0]`: true, `not[1:]`: true, `not.k?`: true, `min.k`: true, `min.k.j`: true, `min[0]`: true,
	`min[]`: true, `min["k"]`: true, `min.["k"]`: true, `min[0].k`: true, `min.k[0]`: true, `min[1:]`: true, `min.k?`: true, `max.k`: true, `max.k.j`: true, `max[0]`: true,
	`max[]`: true, `max["k"]`: true, `max.["k"]`: true, `max[0].k`: true, `max.k[0]`: true, `max[1:]`: true, `max.k?`: true, `upcase.k`: true, `upcase.k.j`: true,
	`upcase[0]`: true, `upcase[]`: true, `upcase["k"]`: true, `upcase.["k"]`: true, `upcase[0].k`: true, `upcase.k[0]`: true, `upcase[1:]`: true, `upcase.k?`: true,
	`trim.k`: true, `trim.k.j`: true, `trim[0]`: true, `trim[]`: true, `trim["k"]`: true, `trim.["k"]`: true, `trim[0].k`: true, `trim.k[0]`: true, `trim[1:]`: true,
	`trim.k?`: true, `sub("a"; "b")[0]`: true, `sub("a"; "b")[]`: true, `sub("a"; "b")["k"]`: true, `sub("a"; "b")[0].k`: true, `sub("a"; "b")[1:]`: true,
	`test("a")[0]`: true, `test("a")[]`: true, `test("a")["k"]`: true, `test("a")[0].k`: true, `test("a")[1:]`: true, `join(",")[0]`: true, `join(",")[]`: true,
	`join(",")["k"]`: true, `join(",")[0].k`: true, `join(",")[1:]`: true, `del(.a).k`: true, `del(.a).k.j`: true, `del(.a)[0]`: true, `del(.a)[]`: true,
	`del(.a)["k"]`: true, `del(.a).["k"]`: true, `del(.a)[0].k`: true, `del(.a).k[0]`: true, `del(.a)[1:]`: true, `del(.a).k?`: true, `to_number.k`: true,
	`to_number.k.j`: true, `to_number[0]`: true, `to_number[]`: true, `to_number["k"]`: true, `to_number.["k"]`: true, `to_number[0].k`: true, `to_number.k[0]`: true,
	`to_number[1:]`: true, `to_number.k?`: true, `to_string.k`: true, `to_string.k.j`: true, `to_string[0]`: true, `to_string[]`: true, `to_string["k"]`: true,
	`to_string.["k"]`: true, `to_string[0].k`: true, `to_string.k[0]`: true, `to_string[1:]`: true, `to_string.k?`: true, `any_c(.a)[0]`: true, `any_c(.a)[]`: true,
	`any_c(.a)["k"]`: true, `any_c(.a)[0].k`: true, `any_c(.a)[1:]`: true, `all_c(.a)[0]`: true, `all_c(.a)[]`: true, `all_c(.a)["k"]`: true, `all_c(.a)[0].k`: true,
	`all_c(.a)[1:]`: true, `array_to_map.k`: true, `array_to_map.k.j`: true, `array_to_map[0]`: true, `array_to_map[]`: true, `array_to_map["k"]`: true,
	`array_to_map.["k"]`: true, `array_to_map[0].k`: true, `array_to_map.k[0]`: true, `array_to_map[1:]`: true, `array_to_map.k?`: true, `from_entries.k`: true,
	`from_entries.k.j`: true, `from_entries[0]`: true, `from_entries[]`: true, `from_entries["k"]`: true, `from_entries.["k"]`: true, `from_entries[0].k`: true,
	`from_entries.k[0]`: true, `from_entries[1:]`: true, `from_entries.k?`: true, `line_comment.k`: true, `line_comment.k.j`: true, `line_comment[0]`: true,
	`line_comment[]`: true, `line_comment["k"]`: true, `line_comment.["k"]`: true, `line_comment[0].k`: true, `line_comment.k[0]`: true, `line_comment[1:]`: true,
	`line_comment.k?`: true, `head_comment.k`: true, `head_comment.k.j`: true, `head_comment[0]`: true, `head_comment[]`: true, `head_comment["k"]`: true,
	`head_comment.["k"]`: true, `head_comment[0].k`: true, `head_comment.k[0]`: true, `head_comment[1:]`: true, `head_comment.k?`: true, `foot_comment.k`: true,
	`foot_comment.k.j`: true, `foot_comment[0]`: true, `foot_comment[]`: true, `foot_comment["k"]`: true, `foot_comment.["k"]`: true, `foot_comment[0].k`: true,
	`foot_comment.k[0]`: true, `foot_comment[1:]`: true, `foot_comment.k?`: true, `style.k`: true, `style.k.j`: true, `style[0]`: true, `style[]`: true, `style["k"]`: true,
	`style.["k"]`: true, `style[0].k`: true, `style.k[0]`: true, `style[1:]`: true, `style.k?`: true, `alias.k`: true, `alias.k.j`: true, `alias[0]`: true, `alias[]`: true,
	`alias["k"]`: true, `alias.["k"]`: true, `alias[0].k`: true, `alias.k[0]`: true, `alias[1:]`: true, `alias.k?`: true, `envsubst.k`: true, `envsubst.k.j`: true,
	`envsubst[0]`: true, `envsubst[]`: true, `envsubst["k"]`: true, `envsubst.["k"]`: true, `envsubst[0].k`: true, `envsubst.k[0]`: true, `envsubst[1:]`: true,
	`envsubst.k?`: true, `to_unix.k`: true, `to_unix.k.j`: true, `to_unix[0]`: true, `to_unix[]`: true, `to_unix["k"]`: true, `to_unix.["k"]`: true, `to_unix[0].k`: true,
	`to_unix.k[0]`: true, `to_unix[1:]`: true, `to_unix.k?`: true, `from_unix.k`: true, `from_unix.k.j`: true, `from_unix[0]`: true, `from_unix[]`: true,
	`from_unix["k"]`: true, `from_unix.["k"]`: true, `from_unix[0].k`: true, `from_unix.k[0]`: true, `from_unix[1:]`: true, `from_unix.k?`: true, `tz("UTC")[0]`: true,
	`tz("UTC")[]`: true, `tz("UTC")["k"]`: true, `tz("UTC")[0].k`: true, `tz("UTC")[1:]`: true,
}

var c09Fillers = []string{" ", "\n", "  ", "\t", " # c\n", "\r\n", "\n\n", " # 1) :] }\n", " # ([{\n"}

func c09Run(c *fw.Ctx) error {
	ops := c09Ops()
	var idx int64
	do := func(cs c09Case, sig string, order int64) {
		idx++
		if !c.Mine(idx) || c.Expired() {
			return
		}
		msg := c09Check(cs)
		c.Eval(1)
		c.Validated(1)
		c.Nontrivial(cs.Kind + "\x00" + cs.A)
		if msg == "" {
			if cs.Kind == "reject" {
				c.Outcome("rejected")
			} else {
				t, _ := c09Tree(cs.A)
				c.Outcome(t)
			}
			if idx%30011 == 5 {
				c.Sample(cs)
			}
			return
		}
		c.Count("mismatch_"+cs.Kind, 1)
		c.Violation(sig, order, cs, msg)
	}
	// tie direction, measured once per worker on the first tied pair (all ties must then agree with it)
	tieRight := true
	{
		t0, _ := c09Tree(".a + .b - .c")
		tr, _ := c09Tree(".a + ( .b - .c )")
		tieRight = t0 == tr
	}
	c.Res.Extra["tie_direction"] = map[bool]string{true: "right", false: "left"}[tieRight]
	// pairs in every context
	for i1, o1 := range ops {
		for i2, o2 := range ops {
			for ci, ctx := range c09Contexts {
				bare := fmt.Sprintf(ctx, ".a "+o1+" .b "+o2+" .c")
				want := fmt.Sprintf(ctx, c09Group([]string{".a", ".b", ".c"}, []string{o1, o2}, tieRight))
				cs := c09Case{Kind: "pair", A: bare, B: want}
				sig := fmt.Sprintf("pair/%s_%s", o1, o2)
				if c09ClassOf(o1) == c09ClassOf(o2) && o1 == o2 {
					// a chain of one operator: any grouping is accepted
					cs.B2 = fmt.Sprintf(ctx, c09Group([]string{".a", ".b", ".c"}, []string{o1, o2}, !tieRight))
				}
				do(cs, sig, int64(ci)*1e4+int64(i1*100+i2))
			}
		}
	}
	// triples (top level and inside brackets)
	for _, o1 := range ops {
		for _, o2 := range ops {
			for _, o3 := range ops {
				tctx := []string{"%s", "[ %s ]", "select( %s )"}
				if c.Thorough() {
					tctx = c09Contexts
				}
				for ci, ctx := range tctx {
					if !c.Thorough() && ci > 0 {
						continue
					}
					bare := fmt.Sprintf(ctx, ".a "+o1+" .b "+o2+" .c "+o3+" .d")
					want := fmt.Sprintf(ctx, c09Group([]string{".a", ".b", ".c", ".d"}, []string{o1, o2, o3}, tieRight))
					do(c09Case{Kind: "triple", A: bare, B: want}, fmt.Sprintf("triple/%s_%s_%s", o1, o2, o3), 1e6)
				}
			}
		}
	}
	// quadruples (thorough): every sequence of four binary operators at top level
	if c.Thorough() {
		for _, o1 := range ops {
			for _, o2 := range ops {
				for _, o3 := range ops {
					for _, o4 := range ops {
						bare := ".a " + o1 + " .b " + o2 + " .c " + o3 + " .d " + o4 + " .e"
						want := c09Group([]string{".a", ".b", ".c", ".d", ".e"}, []string{o1, o2, o3, o4}, tieRight)
						do(c09Case{Kind: "quad", A: bare, B: want}, fmt.Sprintf("quad/%s_%s_%s_%s", o1, o2, o3, o4), 5e6)
					}
				}
			}
		}
	}
	// postfix paths: every term that the pinned grammar lets a path element follow directly, with every kind of path element
	for ti, term := range c09Terms {
		for pi, post := range c09Postfixes {
			if c09NoPostfix[term+post] {
				continue
			}
			do(c09Case{Kind: "postfix", A: term + post, B: "(" + term + ")" + post}, "postfix/"+term, 6e6+int64(ti*100+pi))
			do(c09Case{Kind: "postfix", A: term + post + " | length", B: "((" + term + ")" + post + ") | length"}, "postfix/"+term, 6e6+int64(ti*100+pi))
		}
	}
	do(c09Case{Kind: "verbatim-set", A: "set"}, "verbatim-set", 8e6)
	// string interpolation: redundant brackets inside any segment
	segs := []string{".a", ".b[0]", ".c.d", "(.a)", "((.b[1]))", "(.a | length)", `(.c | .d)`, ".a + 1", `"n"`}
	for _, s1 := range segs {
		for _, s2 := range segs {
			for _, s3 := range []string{"", ".a", "(.a)"} {
				build := func(wrap bool) string {
					w := func(x string) string {
						if wrap {
							return "(" + x + ")"
						}
						return x
					}
					t := `"p\(` + w(s1) + `) q\(` + w(s2) + `)`
					if s3 != "" {
						t += ` r\(` + w(s3) + `)`
					}
					return t + `"`
				}
				do(c09Case{Kind: "same-result", A: build(true), B: build(false)}, "interpolation/brackets", 7e6)
			}
		}
	}
	// chains of one associative operator: the three groupings are compared by what they yield (the trees differ by design)
	chainOperands := []string{".", ".a", ".b", ".c"}
	for _, op := range []string{",", "|", "and", "or", "//"} { // (+ and * are associative only among operands of one kind)
		for _, x := range chainOperands {
			for _, y := range chainOperands {
				for _, z := range chainOperands {
					if x == y || y == z || x == z {
						continue // (`. , .` is a listed finding of C01)
					}
					right := x + " " + op + " (" + y + " " + op + " " + z + ")"
					do(c09Case{Kind: "same-result", A: "(" + x + " " + op + " " + y + ") " + op + " " + z, B: right}, "chain-grouping/"+op, 7.5e6)
					do(c09Case{Kind: "same-result", A: x + " " + op + " " + y + " " + op + " " + z, B: right}, "chain-grouping/"+op, 7.5e6)
					do(c09Case{Kind: "same-result", A: "[(" + x + " " + op + " " + y + ") " + op + " " + z + "]", B: "[" + right + "]"}, "chain-grouping/"+op, 7.5e6)
				}
			}
		}
	}
	// layout: insertions at every token boundary (bound 1, then 2), redundant parentheses
	for ei, toks := range c09LayoutExprs {
		canon := strings.Join(toks, " ")
		if _, ok := c09Tree(canon); !ok {
			c.Note("layout seed does not parse in this version and is skipped: " + canon)
			continue
		}
		nb := len(toks) + 1
		build := func(fill map[int]string) string {
			var sb strings.Builder
			for b := 0; b < nb; b++ {
				f, has := fill[b]
				if b > 0 && b < len(toks) {
					if has {
						sb.WriteString(f)
					} else {
						sb.WriteString(" ")
					}
				} else if has {
					sb.WriteString(f)
				}
				if b < len(toks) {
					sb.WriteString(toks[b])
				}
			}
			return sb.String()
		}
		for b := 0; b < nb; b++ {
			for fi, f := range c09Fillers {
				if b == len(toks) && strings.Contains(f, "#") {
					// a trailing comment is fine too
				}
				do(c09Case{Kind: "layout", A: build(map[int]string{b: f}), B: canon}, fmt.Sprintf("layout/%q", f), 2e6+int64(ei*1000+b*10+fi))
				for b2 := b + 1; b2 < nb; b2++ {
					for _, f2 := range c09Fillers {
						if !c.Thorough() && (f2 != "\n" && f2 != " # c\n" && f2 != "\t") {
							continue
						}
						do(c09Case{Kind: "layout", A: build(map[int]string{b: f, b2: f2}), B: canon}, fmt.Sprintf("layout/%q+%q", f, f2), 3e6)
					}
				}
			}
		}
		// redundant parentheses around the whole expression, twice, and around every operand atom
		do(c09Case{Kind: "parens", A: "( " + canon + " )", B: canon}, "parens/whole", 4e6)
		do(c09Case{Kind: "parens", A: "( ( " + canon + " ) )", B: canon}, "parens/whole", 4e6)
		for ti, t := range toks {
			if (strings.HasPrefix(t, ".") && t != ".[") || t == "1" || strings.HasPrefix(t, `"`) || strings.HasPrefix(t, "$") {
				if ti > 0 && (toks[ti-1] == "as") {
					continue // the name after `as` is a binder, not an expression
				}
				alt := append(append(append([]string{}, toks[:ti]...), "( "+t+" )"), toks[ti+1:]...)
				do(c09Case{Kind: "parens", A: strings.Join(alt, " "), B: canon}, "parens/operand", 4e6+int64(ti))
			}
		}
		// removing the separating space where one side is a bracket, comma or pipe and no new token can form
		for b := 1; b < len(toks); b++ {
			l, r := toks[b-1], toks[b]
			isP := func(s string) bool {
				return s == "(" || s == ")" || s == "[" || s == "]" || s == "{" || s == "}" || s == "," || strings.HasSuffix(s, "(")
			}
			if !(isP(l) || isP(r)) {
				continue
			}
			if strings.HasPrefix(l, ".") && (r == "[" || r == "(") {
				continue // `.a[` and `.a(` are different tokens by design
			}
			if l == "]" || l == ")" || l == "}" {
				if strings.HasPrefix(r, ".") || r == "[" {
					continue // postfix traversal after a bracket is a different program
				}
			}
			do(c09Case{Kind: "layout", A: build(map[int]string{b: ""}), B: canon}, "layout/no-space-at-bracket", 5e6)
		}
		// rejection: delete or duplicate one bracket token
		for ti, t := range toks {
			open := t == "(" || t == "[" || t == "{" || strings.HasSuffix(t, "(") || t == ".["
			cl := t == ")" || t == "]" || t == "}"
			if !open && !cl {
				continue
			}
			if cl || t == "(" || t == "[" || t == "{" {
				del := append(append([]string{}, toks[:ti]...), toks[ti+1:]...)
				do(c09Case{Kind: "reject", A: strings.Join(del, " ")}, "accepted/bracket-deleted", 6e6)
			}
			if t == "(" || t == "[" || t == "{" || cl {
				dup := append(append(append([]string{}, toks[:ti+1]...), t), toks[ti+1:]...)
				do(c09Case{Kind: "reject", A: strings.Join(dup, " ")}, "accepted/bracket-duplicated", 6e6)
			}
		}
	}
	// a surplus closing bracket anywhere at top level
	for _, e := range []string{".a )", ".a ) | .b", ".a = 5 )", ".a ]", ".a }", ") .a", "( .a ) )", "[ .a ] ]", ".a | ( .b ) )"} {
		do(c09Case{Kind: "reject", A: e}, "accepted/surplus-closing-bracket", 6e6)
	}
	// brackets that balance in number but not in order, or not in kind
	for _, e := range []string{".a )(", ".a ) (", ")( .a", ".a ][", ".a }{", ".a ) | ( .b", "( .a ]", "[ .a )", "{ \"k\": .a ]", ".a | ) .b (", ".a )( | .b", "( .a ) )(", ".a ] [ 0"} {
		do(c09Case{Kind: "reject", A: e}, "accepted/brackets-out-of-order", 6e6)
	}
	// rejection: binary operators with a missing operand
	for _, o := range ops {
		for pi, p := range []string{"%s .a", ".a %s", "( %s .a )", "( .a %s )", ".a %s %s .b", "[ .a %s ]", ".a | %s .b", ".a %s | .b", "select( %s .a )", ".a .b %s", "%s .a .b", "1 2 %s", "%s 1 2"} {
			e := strings.ReplaceAll(p, "%s", o)
			if o == "-" && (pi == 0 || pi == 2 || pi == 6 || pi == 8 || pi == 12) {
				continue // a leading minus may be read as a sign
			}
			do(c09Case{Kind: "reject", A: e}, fmt.Sprintf("accepted/operator-missing-operand/pattern%d", pi), 7e6)
		}
	}
	c.Res.Bound = fmt.Sprintf("all %d^2 operator pairs x %d contexts, all %d^3 triples%s, %d layout seeds x every boundary x %d fillers (single, and double), redundant parentheses, bracket deletion/duplication, %d operators x 13 missing-operand patterns; %d kinds of term x 10 postfix path elements minus the %d pairs the pinned grammar does not accept (bare = bracketed); string interpolations with redundant brackets in every segment (same results)", len(ops), len(c09Contexts), len(ops), map[bool]string{false: " at top level", true: " in every context and all quadruples at top level"}[c.Thorough()], len(c09LayoutExprs), len(c09Fillers), len(ops), len(c09Terms), len(c09NoPostfix))
	return nil
}

func c09Replay(raw json.RawMessage) (bool, string, error) {
	var cs c09Case
	if err := json.Unmarshal(raw, &cs); err != nil {
		return false, "", err
	}
	msg := c09Check(cs)
	return msg != "", msg, nil
}

func init() {
	registerLater(func() {
		fw.Register(&fw.Check{
			ID: "C09", Level: "model_checking",
			Rule: "token sequences: every ordered pair of the 21 binary operator spellings in 10 nesting contexts, every triple (thorough: in every context) and (thorough) every quadruple: the bare spelling must build the same ExpressionNode tree (exported fields) as the spelling bracketed by a pinned copy of the precedence relation (equivalence classes, ties grouped in the one direction the parser uses; chains of one operator either way); " +
				"every token boundary of 47 seed expressions x 7 fillers (space, newline, tab, CRLF, `# comment`), singly and in pairs; redundant parentheses around the whole and around every operand; no-space at brackets; every bracket deleted or duplicated and every binary operator with a missing operand must be rejected; distinct = distinct spelling",
			Assumptions: []string{"the precedence relation is pinned as classes in c09.go (a renumbering that keeps the order is not an alarm)", "tree equality through exported fields of ExpressionNode/Operation; operator tokens' own text is compared without white space"},
			Budget:      func(t string) time.Duration { return 20 * time.Minute },
			Run:         c09Run, Replay: c09Replay,
		})
	})
}
