package checks

import (
	"encoding/json"
	"fmt"
	"strings"
	"time"

	"github.com/mikefarah/yq/v4/pkg/yqlib"

	"verif/mc/internal/fw"
	"verif/mc/internal/impl"
)

// C09 – parsing honours operator precedence, grouping and layout-insensitivity; malformed input is rejected.
// Exhaustive over token sequences: every ordered pair and triple of binary operator spellings in every nesting context
// (tree of the bare spelling == tree of the spelling bracketed by a pinned copy of the precedence relation), every
// single and double layout insertion at every token boundary, redundant parentheses, every bracket deletion/duplication
// and every misplaced binary operator.

// pinned precedence relation: equivalence classes in ascending binding strength (numbers themselves are not pinned)
var c09Classes = [][]string{
	{","},
	{"and", "or"},
	{"|"},
	{"=", "|=", "+=", "-=", "==", "!=", "<", "<=", ">", ">="},
	{"*", "*=", "/", "%", "+", "-", "//", "*+"},
}

func c09ClassOf(op string) int {
	for i, c := range c09Classes {
		for _, o := range c {
			if o == op {
				return i
			}
		}
	}
	return -1
}

func c09Ops() []string {
	var out []string
	for _, c := range c09Classes {
		out = append(out, c...)
	}
	return out
}

var c09Contexts = []string{"%s", "( %s )", "[ %s ]", `{ "k": %s }`, "select( %s )", "map( %s )", ".x as $v | ( %s )", ".[] as $v ireduce ( 0 ; %s )", "with( .q ; %s )", "[ .z , %s ]"}

// treeDump renders a parsed expression through exported fields only.
func treeDump(n *yqlib.ExpressionNode) string {
	if n == nil {
		return "_"
	}
	op := n.Operation
	var sb strings.Builder
	sb.WriteString(op.OperationType.Type)
	sv := op.StringValue
	val := fmt.Sprintf("%v", op.Value)
	switch op.OperationType.Type {
	case "VALUE", "STRING_INT", "TRAVERSE_PATH", "GET_VARIABLE", "ENV":
	default:
		sv = strings.Join(strings.Fields(sv), "")
		val = strings.Join(strings.Fields(val), "")
	}
	fmt.Fprintf(&sb, "<%s|%s|%#v|%v", sv, val, op.Preferences, op.UpdateAssign)
	if op.CandidateNode != nil {
		fmt.Fprintf(&sb, "|%s:%s", op.CandidateNode.Tag, op.CandidateNode.Value)
	}
	sb.WriteString(">(" + treeDump(n.LHS) + "," + treeDump(n.RHS) + ")")
	return sb.String()
}

// TreeOf dumps the parsed tree of an expression (debugging aid: `mc tree '<expr>'`).
func TreeOf(expr string) string { t, _ := c09Tree(expr); return t }

func c09Tree(expr string) (string, bool) {
	n, err, pan := impl.Parse(expr)
	if pan != nil {
		return fmt.Sprintf("PANIC %v", pan), false
	}
	if err != nil {
		return "ERROR " + err.Error(), false
	}
	return treeDump(n), true
}

type c09Case struct {
	Kind string `json:"kind"`
	A    string `json:"a"`            // the spelling under test
	B    string `json:"b,omitempty"`  // what it must mean (same tree), or "" when it must be rejected
	B2   string `json:"b2,omitempty"` // an alternative accepted meaning (ties)
}

// c09Check returns "" or a mismatch description.
func c09Check(cs c09Case) string {
	ta, oka := c09Tree(cs.A)
	switch cs.Kind {
	case "reject":
		if oka {
			return fmt.Sprintf("%q is accepted (parsed as %s)", cs.A, clip(ta, 200))
		}
		if strings.HasPrefix(ta, "PANIC") {
			return fmt.Sprintf("%q: %s", cs.A, ta)
		}
		return ""
	default:
		tb, okb := c09Tree(cs.B)
		if !okb {
			return fmt.Sprintf("harness: reference spelling %q does not parse: %s", cs.B, tb)
		}
		if !oka {
			return fmt.Sprintf("%q is rejected (%s) but %q parses", cs.A, ta, cs.B)
		}
		if ta == tb {
			return ""
		}
		if cs.B2 != "" {
			if tb2, ok := c09Tree(cs.B2); ok && tb2 == ta {
				return ""
			}
		}
		return fmt.Sprintf("%q does not parse like %q:\n  got  %s\n  want %s", cs.A, cs.B, clip(ta, 400), clip(tb, 400))
	}
}

// c09Group builds the fully bracketed spelling of operands/ops by precedence climbing over the pinned classes; ties group to the right (tieRight) or left.
func c09Group(operands []string, ops []string, tieRight bool) string {
	if len(ops) == 0 {
		return operands[0]
	}
	// find the loosest operator; among ties the leftmost (right grouping) or rightmost (left grouping) splits last
	best := 0
	for i := range ops {
		ci, cb := c09ClassOf(ops[i]), c09ClassOf(ops[best])
		if ci < cb || (ci == cb && !tieRight) {
			best = i
		}
	}
	l := c09Group(operands[:best+1], ops[:best], tieRight)
	r := c09Group(operands[best+1:], ops[best+1:], tieRight)
	if best > 0 {
		l = "( " + l + " )"
	}
	if best < len(ops)-1 {
		r = "( " + r + " )"
	}
	return l + " " + ops[best] + " " + r
}

var c09LayoutExprs = [][]string{
	{".a", "|", ".b"}, {".a", ",", ".b"}, {".a", "+", "1"}, {".a", "==", `"x"`}, {".a", "//", ".b"}, {".a", "and", ".b"}, {".a", "=", "3"}, {".a", "|=", ".", "+", "1"},
	{"select(", ".a", "==", "1", ")"}, {"map(", ".", "+", "1", ")"}, {"[", ".a", ",", ".b", "]"}, {"{", `"k"`, ":", ".a", "}"}, {"(", ".a", "|", ".b", ")"},
	{".[]", "|", "select(", ".a", ")", "|", ".b"}, {".a", "as", "$x", "|", "$x", "+", "1"}, {".[]", "as", "$i", "ireduce", "(", "0", ";", ".", "+", "$i", ")"},
	{"length"}, {".a", "|", "length"}, {"..", "|", "select(", "tag", "==", `"!!int"`, ")"}, {"with(", ".a", ";", ".b", "=", "1", ")"}, {"del(", ".a", ")"},
	{"sort_by(", ".a", ")"}, {"has(", `"a"`, ")"}, {".a", "*", ".b"}, {".a", "*+", ".b"}, {"1", "-", "2"}, {"true", "or", "false"}, {"null"}, {`"a b"`}, {".a[0]"}, {".a.b"},
	{`.["a"]`}, {".[", "0", "]"}, {".a", "|", "to_json"}, {"[", ".[]", "|", ".a", "]"}, {".a", "<", "3", "and", ".b", ">=", "1"}, {"not"}, {".a", "|", "not"}, {"to_entries"},
	{"group_by(", ".a", ")", "|", ".[0]"}, {".a", "+=", "1"}, {".a", "-=", "1"}, {".a", "*=", ".b"}, {"(", ".a", ",", ".b", ")", "=", "1"}, {".a", "!=", "null"}, {"1.5", "/", "2"}, {"-1", "%", "2"},
}

var c09Fillers = []string{" ", "\n", "  ", "\t", " # c\n", "\r\n", "\n\n"}

func c09Run(c *fw.Ctx) error {
	ops := c09Ops()
	var idx int64
	do := func(cs c09Case, sig string, order int64) {
		idx++
		if !c.Mine(idx) || c.Expired() {
			return
		}
		msg := c09Check(cs)
		c.Eval(1)
		c.Validated(1)
		c.Nontrivial(cs.Kind + "\x00" + cs.A)
		if msg == "" {
			if cs.Kind == "reject" {
				c.Outcome("rejected")
			} else {
				t, _ := c09Tree(cs.A)
				c.Outcome(t)
			}
			if idx%30011 == 5 {
				c.Sample(cs)
			}
			return
		}
		c.Count("mismatch_"+cs.Kind, 1)
		c.Violation(sig, order, cs, msg)
	}
	// tie direction, measured once per worker on the first tied pair (all ties must then agree with it)
	tieRight := true
	{
		t0, _ := c09Tree(".a + .b - .c")
		tr, _ := c09Tree(".a + ( .b - .c )")
		tieRight = t0 == tr
	}
	c.Res.Extra["tie_direction"] = map[bool]string{true: "right", false: "left"}[tieRight]
	// pairs in every context
	for i1, o1 := range ops {
		for i2, o2 := range ops {
			for ci, ctx := range c09Contexts {
				bare := fmt.Sprintf(ctx, ".a "+o1+" .b "+o2+" .c")
				want := fmt.Sprintf(ctx, c09Group([]string{".a", ".b", ".c"}, []string{o1, o2}, tieRight))
				cs := c09Case{Kind: "pair", A: bare, B: want}
				sig := fmt.Sprintf("pair/%s_%s", o1, o2)
				if c09ClassOf(o1) == c09ClassOf(o2) && o1 == o2 {
					// a chain of one operator: any grouping is accepted
					cs.B2 = fmt.Sprintf(ctx, c09Group([]string{".a", ".b", ".c"}, []string{o1, o2}, !tieRight))
				}
				do(cs, sig, int64(ci)*1e4+int64(i1*100+i2))
			}
		}
	}
	// triples (top level and inside brackets)
	for _, o1 := range ops {
		for _, o2 := range ops {
			for _, o3 := range ops {
				tctx := []string{"%s", "[ %s ]", "select( %s )"}
				if c.Thorough() {
					tctx = c09Contexts
				}
				for ci, ctx := range tctx {
					if !c.Thorough() && ci > 0 {
						continue
					}
					bare := fmt.Sprintf(ctx, ".a "+o1+" .b "+o2+" .c "+o3+" .d")
					want := fmt.Sprintf(ctx, c09Group([]string{".a", ".b", ".c", ".d"}, []string{o1, o2, o3}, tieRight))
					do(c09Case{Kind: "triple", A: bare, B: want}, fmt.Sprintf("triple/%s_%s_%s", o1, o2, o3), 1e6)
				}
			}
		}
	}
	// quadruples (thorough): every sequence of four binary operators at top level
	if c.Thorough() {
		for _, o1 := range ops {
			for _, o2 := range ops {
				for _, o3 := range ops {
					for _, o4 := range ops {
						bare := ".a " + o1 + " .b " + o2 + " .c " + o3 + " .d " + o4 + " .e"
						want := c09Group([]string{".a", ".b", ".c", ".d", ".e"}, []string{o1, o2, o3, o4}, tieRight)
						do(c09Case{Kind: "quad", A: bare, B: want}, fmt.Sprintf("quad/%s_%s_%s_%s", o1, o2, o3, o4), 5e6)
					}
				}
			}
		}
	}
	// layout: insertions at every token boundary (bound 1, then 2), redundant parentheses
	for ei, toks := range c09LayoutExprs {
		canon := strings.Join(toks, " ")
		if _, ok := c09Tree(canon); !ok {
			c.Note("layout seed does not parse in this version and is skipped: " + canon)
			continue
		}
		nb := len(toks) + 1
		build := func(fill map[int]string) string {
			var sb strings.Builder
			for b := 0; b < nb; b++ {
				f, has := fill[b]
				if b > 0 && b < len(toks) {
					if has {
						sb.WriteString(f)
					} else {
						sb.WriteString(" ")
					}
				} else if has {
					sb.WriteString(f)
				}
				if b < len(toks) {
					sb.WriteString(toks[b])
				}
			}
			return sb.String()
		}
		for b := 0; b < nb; b++ {
			for fi, f := range c09Fillers {
				if b == len(toks) && strings.Contains(f, "#") {
					// a trailing comment is fine too
				}
				do(c09Case{Kind: "layout", A: build(map[int]string{b: f}), B: canon}, fmt.Sprintf("layout/%q", f), 2e6+int64(ei*1000+b*10+fi))
				for b2 := b + 1; b2 < nb; b2++ {
					for _, f2 := range c09Fillers {
						if !c.Thorough() && (f2 != "\n" && f2 != " # c\n" && f2 != "\t") {
							continue
						}
						do(c09Case{Kind: "layout", A: build(map[int]string{b: f, b2: f2}), B: canon}, fmt.Sprintf("layout/%q+%q", f, f2), 3e6)
					}
				}
			}
		}
		// redundant parentheses around the whole expression, twice, and around every operand atom
		do(c09Case{Kind: "parens", A: "( " + canon + " )", B: canon}, "parens/whole", 4e6)
		do(c09Case{Kind: "parens", A: "( ( " + canon + " ) )", B: canon}, "parens/whole", 4e6)
		for ti, t := range toks {
			if (strings.HasPrefix(t, ".") && t != ".[") || t == "1" || strings.HasPrefix(t, `"`) || strings.HasPrefix(t, "$") {
				if ti > 0 && (toks[ti-1] == "as") {
					continue // the name after `as` is a binder, not an expression
				}
				alt := append(append(append([]string{}, toks[:ti]...), "( "+t+" )"), toks[ti+1:]...)
				do(c09Case{Kind: "parens", A: strings.Join(alt, " "), B: canon}, "parens/operand", 4e6+int64(ti))
			}
		}
		// removing the separating space where one side is a bracket, comma or pipe and no new token can form
		for b := 1; b < len(toks); b++ {
			l, r := toks[b-1], toks[b]
			isP := func(s string) bool {
				return s == "(" || s == ")" || s == "[" || s == "]" || s == "{" || s == "}" || s == "," || strings.HasSuffix(s, "(")
			}
			if !(isP(l) || isP(r)) {
				continue
			}
			if strings.HasPrefix(l, ".") && (r == "[" || r == "(") {
				continue // `.a[` and `.a(` are different tokens by design
			}
			if l == "]" || l == ")" || l == "}" {
				if strings.HasPrefix(r, ".") || r == "[" {
					continue // postfix traversal after a bracket is a different program
				}
			}
			do(c09Case{Kind: "layout", A: build(map[int]string{b: ""}), B: canon}, "layout/no-space-at-bracket", 5e6)
		}
		// rejection: delete or duplicate one bracket token
		for ti, t := range toks {
			open := t == "(" || t == "[" || t == "{" || strings.HasSuffix(t, "(") || t == ".["
			cl := t == ")" || t == "]" || t == "}"
			if !open && !cl {
				continue
			}
			if cl || t == "(" || t == "[" || t == "{" {
				del := append(append([]string{}, toks[:ti]...), toks[ti+1:]...)
				do(c09Case{Kind: "reject", A: strings.Join(del, " ")}, "accepted/bracket-deleted", 6e6)
			}
			if t == "(" || t == "[" || t == "{" || cl {
				dup := append(append(append([]string{}, toks[:ti+1]...), t), toks[ti+1:]...)
				do(c09Case{Kind: "reject", A: strings.Join(dup, " ")}, "accepted/bracket-duplicated", 6e6)
			}
		}
	}
	// a surplus closing bracket anywhere at top level
	for _, e := range []string{".a )", ".a ) | .b", ".a = 5 )", ".a ]", ".a }", ") .a", "( .a ) )", "[ .a ] ]", ".a | ( .b ) )"} {
		do(c09Case{Kind: "reject", A: e}, "accepted/surplus-closing-bracket", 6e6)
	}
	// rejection: binary operators with a missing operand
	for _, o := range ops {
		for pi, p := range []string{"%s .a", ".a %s", "( %s .a )", "( .a %s )", ".a %s %s .b", "[ .a %s ]", ".a | %s .b", ".a %s | .b", "select( %s .a )", ".a .b %s", "%s .a .b", "1 2 %s", "%s 1 2"} {
			e := strings.ReplaceAll(p, "%s", o)
			if o == "-" && (pi == 0 || pi == 2 || pi == 6 || pi == 8 || pi == 12) {
				continue // a leading minus may be read as a sign
			}
			do(c09Case{Kind: "reject", A: e}, fmt.Sprintf("accepted/operator-missing-operand/pattern%d", pi), 7e6)
		}
	}
	c.Res.Bound = fmt.Sprintf("all %d^2 operator pairs x %d contexts, all %d^3 triples%s, %d layout seeds x every boundary x %d fillers (single, and double), redundant parentheses, bracket deletion/duplication, %d operators x 13 missing-operand patterns", len(ops), len(c09Contexts), len(ops), map[bool]string{false: " at top level", true: " in every context and all quadruples at top level"}[c.Thorough()], len(c09LayoutExprs), len(c09Fillers), len(ops))
	return nil
}

func c09Replay(raw json.RawMessage) (bool, string, error) {
	var cs c09Case
	if err := json.Unmarshal(raw, &cs); err != nil {
		return false, "", err
	}
	msg := c09Check(cs)
	return msg != "", msg, nil
}

func init() {
	registerLater(func() {
		fw.Register(&fw.Check{
			ID: "C09", Level: "model_checking",
			Rule: "token sequences: every ordered pair of the 21 binary operator spellings in 10 nesting contexts, every triple (thorough: in every context) and (thorough) every quadruple: the bare spelling must build the same ExpressionNode tree (exported fields) as the spelling bracketed by a pinned copy of the precedence relation (equivalence classes, ties grouped in the one direction the parser uses; chains of one operator either way); " +
				"every token boundary of 47 seed expressions x 7 fillers (space, newline, tab, CRLF, `# comment`), singly and in pairs; redundant parentheses around the whole and around every operand; no-space at brackets; every bracket deleted or duplicated and every binary operator with a missing operand must be rejected; distinct = distinct spelling",
			Assumptions: []string{"the precedence relation is pinned as classes in c09.go (a renumbering that keeps the order is not an alarm)", "tree equality through exported fields of ExpressionNode/Operation; operator tokens' own text is compared without white space"},
			Budget:      func(t string) time.Duration { return 20 * time.Minute },
			Run:         c09Run, Replay: c09Replay,
		})
	})
}
