package checks

import (
	"bytes"
	"encoding/json"
	"fmt"
	"os"
	"os/exec"
	"path/filepath"
	"strings"
	"time"

	"verif/mc/internal/fw"
)

// C10 – multi-document, multi-file input is processed document by document, in order.
// History enumeration on the real binary: every sequence of <= F files, each holding 0..K documents over a document
// alphabet, x document-local expressions x {separators on, -N}; differential against solo runs (one document, one file)
// and exact expectations for document_index / file_index / filename.

type c10Doc struct {
	Name string
	Text string // without a trailing separator
	Lead bool   // starts with an explicit `---` line (only meaningful as first document of a file)
}

var c10Alphabet = []c10Doc{
	{"map", "a: 1\nb: x\n", false},
	{"commented-map", "# lead\nb: y\na: 2\n", false},
	{"explicit-start-map", "---\na: 3\n", true},
	{"scalar", "5\n", false},
	{"seq", "- 1\n- 2\n", false},
	{"str", "hello\n", false},
	// a file that holds a comment and nothing else counts as one null document (only generated as the sole content of a file)
	{"comment-only-file", "# only a comment\n", false},
}

var c10Exprs = []string{
	".", ".a", "select(.a)", "length", "[.[]]", "(.a = 1)", "del(.a)", "(.a |= . + 1)", "(. as $d | $d)", `("a" | . |= . + "b")`, "(1 | . |= . + 1)", "(. as $i ireduce (0; . += 1))", `.a // "none"`, "to_json",
	"document_index", "file_index", "filename", `{"doc": document_index, "file": file_index}`,
	// documents that print nothing before documents that print (position-dependent and kind-dependent filters)
	"select(document_index == 1)", "select(file_index == 1)", `select(kind == "scalar")`, `select(tag == "!!map") | .a`,
	// several results per document (no separator between the results of one document)
	`select(tag == "!!map") | (.a, .b)`, `(., .)`,
}

// c10JSONAlphabet: the same shapes as one JSON value each; a JSON input file is the values one per line (a stream of documents in a non-YAML format)
var c10JSONAlphabet = []string{`{"a": 1, "b": "x"}`, `{"b": "y", "a": 2}`, `{"a": 3}`, `5`, `[1, 2]`, `"hello"`}

var c10JSONExprs = []string{".", ".a", "select(.a)", "length", "document_index", "file_index", `{"doc": document_index, "file": file_index}`, "select(document_index == 1)", `select(kind == "scalar")`}

type c10Case struct {
	Files [][]int  `json:"files"` // per file: indices into the document alphabet
	Expr  string   `json:"expr"`
	Flags []string `json:"flags"`
	Mode  string   `json:"mode"` // eval | eval-all-single
	JSON  bool     `json:"json_input,omitempty"`
}

func c10FileText(docs []int) string {
	var sb strings.Builder
	for i, d := range docs {
		t := c10Alphabet[d].Text
		if i > 0 {
			if c10Alphabet[d].Lead {
				sb.WriteString(t) // brings its own separator
				continue
			}
			sb.WriteString("---\n")
		}
		sb.WriteString(t)
	}
	return sb.String()
}

func c10RunYq(dir string, args ...string) (stdout, stderr string, exit int, err error) {
	return c10RunCmd(dir, yqBin(), args...)
}

func clip(s string, n int) string {
	if len(s) > n {
		return s[:n] + "…"
	}
	return s
}

func c10RunCmd(dir string, bin string, args ...string) (stdout, stderr string, exit int, err error) {
	cmd := exec.Command(bin, args...)
	cmd.Dir = dir
	cmd.Env = []string{"TZ=UTC", "PATH=/usr/bin:/bin", "HOME=" + dir}
	var so, se bytes.Buffer
	cmd.Stdout, cmd.Stderr = &so, &se
	cmd.Stdin = strings.NewReader("")
	done := make(chan error, 1)
	if err := cmd.Start(); err != nil {
		return "", "", 0, err
	}
	go func() { done <- cmd.Wait() }()
	select {
	case werr := <-done:
		if werr != nil {
			if ee, ok := werr.(*exec.ExitError); ok {
				return so.String(), se.String(), ee.ExitCode(), nil
			}
			return "", "", 0, werr
		}
	case <-time.After(60 * time.Second):
		cmd.Process.Kill()
		<-done
		return so.String(), se.String(), -1, fmt.Errorf("yq did not terminate within 60 s")
	}
	return so.String(), se.String(), 0, nil
}

func linesNoSep(s string) []string {
	var out []string
	for _, l := range strings.Split(strings.TrimSuffix(s, "\n"), "\n") {
		if l != "---" && !(l == "" && s == "") {
			out = append(out, l)
		}
	}
	if s == "" {
		return nil
	}
	return out
}

var c10SoloCache = map[string]string{}

// c10Check runs one history; returns mismatch kind and detail.
func c10Check(work string, cs c10Case) (kind, detail, outcome string) {
	dir, err := os.MkdirTemp(work, "h-")
	if err != nil {
		return "harness", err.Error(), ""
	}
	defer os.RemoveAll(dir)
	var names []string
	type pos struct{ file, doc, alpha int }
	var docs []pos
	for fi, f := range cs.Files {
		name := fmt.Sprintf("f%d.yml", fi)
		text := c10FileText(f)
		if cs.JSON {
			name = fmt.Sprintf("f%d.json", fi)
			text = ""
			for _, a := range f {
				text += c10JSONAlphabet[a] + "\n"
			}
		}
		os.WriteFile(filepath.Join(dir, name), []byte(text), 0o644)
		names = append(names, name)
		for di, a := range f {
			docs = append(docs, pos{fi, di, a})
		}
	}
	args := []string{}
	if cs.Mode == "eval-all-single" {
		args = append(args, "ea")
	}
	args = append(args, cs.Flags...)
	if cs.JSON {
		args = append(args, "-p=json", "-o=yaml")
	}
	args = append(args, cs.Expr)
	args = append(args, names...)
	out, serr, exit, err := c10RunYq(dir, args...)
	if err != nil {
		return "hang", err.Error(), ""
	}
	outcome = fmt.Sprintf("exit=%d lines=%d", exit, strings.Count(out, "\n"))
	noSep := false
	for _, f := range cs.Flags {
		if f == "-N" {
			noSep = true
		}
	}
	// expected chunks, one per document
	var chunks [][]string
	var soloLead []int // separator lines the document's own solo output starts with (an explicit document start is kept)
	if len(docs) == 0 {
		// no document at all: the expression is evaluated once on null (documented fallback)
		solo, _, sexit, _ := c10RunYq(dir, "-n", cs.Expr)
		if sexit != exit {
			return "no-input-fallback", fmt.Sprintf("no documents: exit %d, but `yq -n %s` exits %d", exit, cs.Expr, sexit), outcome
		}
		if exit == 0 && cs.Expr != "filename" && strings.Join(linesNoSep(out), "\n") != strings.Join(linesNoSep(solo), "\n") {
			return "no-input-fallback", fmt.Sprintf("no documents: prints %q, `yq -n` prints %q", out, solo), outcome
		}
		return "", "", outcome
	}
	for _, p := range docs {
		var want string
		switch cs.Expr {
		case "document_index":
			want = fmt.Sprintf("%d\n", p.doc)
		case "file_index":
			want = fmt.Sprintf("%d\n", p.file)
		case "filename":
			want = fmt.Sprintf("f%d.yml\n", p.file)
			if cs.JSON {
				want = fmt.Sprintf("f%d.json\n", p.file)
			}
		case `{"doc": document_index, "file": file_index}`:
			want = fmt.Sprintf("doc: %d\nfile: %d\n", p.doc, p.file)
		default:
			soloExpr := cs.Expr
			switch cs.Expr {
			case "select(document_index == 1)":
				soloExpr = "."
				if p.doc != 1 {
					soloExpr = "select(false)"
				}
			case "select(file_index == 1)":
				soloExpr = "."
				if p.file != 1 {
					soloExpr = "select(false)"
				}
			}
			key := fmt.Sprintf("%s\x00%d\x00%v\x00%v", soloExpr, p.alpha, cs.Flags, cs.JSON)
			solo, ok := c10SoloCache[key]
			if !ok {
				soloArgs := append(append([]string{}, cs.Flags...), soloExpr, "solo.yml")
				if cs.JSON {
					os.WriteFile(filepath.Join(dir, "solo.json"), []byte(c10JSONAlphabet[p.alpha]+"\n"), 0o644)
					soloArgs = append(append([]string{}, cs.Flags...), "-p=json", "-o=yaml", soloExpr, "solo.json")
				} else {
					os.WriteFile(filepath.Join(dir, "solo.yml"), []byte(c10Alphabet[p.alpha].Text), 0o644)
				}
				so, _, sexit, _ := c10RunYq(dir, soloArgs...)
				if sexit != 0 {
					so = "\x00ERROR"
				}
				solo = so
				c10SoloCache[key] = solo
			}
			want = solo
		}
		if want == "\x00ERROR" {
			// evaluation stops at the first failing document: what was printed before stays, exit != 0
			if exit == 0 {
				return "error-swallowed", fmt.Sprintf("document %d of file %d fails on its own, the run exits 0", p.doc, p.file), outcome
			}
			break
		}
		chunks = append(chunks, linesNoSep(want))
		lead := 0
		for _, l := range strings.Split(want, "\n") {
			if l != "---" {
				break
			}
			lead++
		}
		soloLead = append(soloLead, lead)
	}
	failedSolo := len(chunks) < len(docs)
	if !failedSolo && exit != 0 {
		return "unexpected-failure", fmt.Sprintf("every document succeeds on its own, the run exits %d: %s", exit, serr), outcome
	}
	// walk the output: chunk lines in order, counting separator lines between consecutive non-empty chunks
	outLines := strings.Split(strings.TrimSuffix(out, "\n"), "\n")
	if out == "" {
		outLines = nil
	}
	i := 0
	prevPrinted := false
	for ci, ch := range chunks {
		seps := 0
		for i < len(outLines) && outLines[i] == "---" {
			seps++
			i++
		}
		if len(ch) == 0 {
			i -= seps // separators belong to the next printing document
			continue
		}
		for li, l := range ch {
			if i >= len(outLines) || outLines[i] != l {
				got := "<end of output>"
				if i < len(outLines) {
					got = outLines[i]
				}
				return "content", fmt.Sprintf("output line %d is %q; document #%d (line %d of its solo output) gives %q\nfull output:\n%s", i+1, got, ci, li+1, l, out), outcome
			}
			i++
		}
		if !prevPrinted {
			// nothing was printed yet: no separator is due, except the explicit start marker a first-in-file document prints on its own
			allowed := 0
			if docs[ci].doc == 0 || cs.JSON {
				allowed = soloLead[ci]
			}
			if seps > allowed {
				return "separator", fmt.Sprintf("%d separator lines before the first printed document (#%d), whose own output starts with %d\nfull output:\n%s", seps, ci, soloLead[ci], out), outcome
			}
		}
		if prevPrinted && !noSep && seps != 1 {
			return "separator", fmt.Sprintf("%d separator lines between the outputs of two consecutive documents (#%d and the one before), expected exactly 1\nfull output:\n%s", seps, ci, out), outcome
		}
		if noSep && seps != 0 && (cs.JSON || !c10Alphabet[docs[ci].alpha].Lead) {
			return "separator", fmt.Sprintf("-N given but %d separator lines printed before document #%d\nfull output:\n%s", seps, ci, out), outcome
		}
		prevPrinted = true
	}
	if !failedSolo {
		for i < len(outLines) && outLines[i] == "---" {
			i++
		}
		if i != len(outLines) {
			return "content", fmt.Sprintf("extra output after the last document: %q\nfull output:\n%s", strings.Join(outLines[i:], "\n"), out), outcome
		}
	}
	return "", "", outcome
}

// c10Formats: two files per input format that holds one document per file.
var c10Formats = []struct {
	ext  string
	a, b string
}{
	{"toml", "a = 1\nn = \"first\"\n", "a = 2\nm = \"second\"\n"},
	{"lua", "return {a=1, n=\"first\"}\n", "return {a=2, m=\"second\"}\n"},
	{"xml", "<r><a>1</a><n>first</n></r>\n", "<r><a>2</a><m>second</m></r>\n"},
	{"properties", "a = 1\nn = first\n", "a = 2\nm = second\n"},
	{"csv", "a,n\n1,first\n", "a,m\n2,second\n"},
	{"tsv", "a\tn\n1\tfirst\n", "a\tm\n2\tsecond\n"},
	{"json", "{\"a\": 1, \"n\": \"first\"}\n", "{\"a\": 2, \"m\": \"second\"}\n"},
}

// c10CheckFormat: files of one non-YAML format in the given order (0 = a, 1 = b); the output is the solo outputs in order.
func c10CheckFormat(work string, ext string, order []int, expr string) (kind, detail string) {
	dir, err := os.MkdirTemp(work, "f-")
	if err != nil {
		return "harness", err.Error()
	}
	defer os.RemoveAll(dir)
	var content [2]string
	for _, f := range c10Formats {
		if f.ext == ext {
			content = [2]string{f.a, f.b}
		}
	}
	var names []string
	var want []string
	for i, o := range order {
		n := fmt.Sprintf("f%d.%s", i, ext)
		os.WriteFile(filepath.Join(dir, n), []byte(content[o]), 0o644)
		names = append(names, n)
		solo, _, sexit, _ := c10RunYq(dir, "-o=yaml", expr, n)
		if sexit != 0 {
			return "", "" // the format does not read its own sample in this version: nothing to compare
		}
		want = append(want, linesNoSep(solo)...)
	}
	out, serr, exit, err := c10RunYq(dir, append([]string{"-o=yaml", expr}, names...)...)
	if err != nil {
		return "hang", err.Error()
	}
	if exit != 0 {
		return "unexpected-failure", fmt.Sprintf("every file succeeds on its own, the run exits %d: %s", exit, serr)
	}
	if got := linesNoSep(out); strings.Join(got, "\n") != strings.Join(want, "\n") {
		return "content", fmt.Sprintf("yq -o=yaml %q %v prints\n%s\nthe files on their own give, in order,\n%s", expr, names, out, strings.Join(want, "\n"))
	}
	return "", ""
}

func c10Histories(maxFiles, maxDocs int) [][][]int {
	var files [][]int
	var rec func(cur []int)
	rec = func(cur []int) {
		files = append(files, append([]int{}, cur...))
		if len(cur) == maxDocs {
			return
		}
		for a := range c10Alphabet {
			if c10Alphabet[a].Name == "comment-only-file" && len(cur) > 0 {
				continue
			}
			if len(cur) > 0 && c10Alphabet[cur[0]].Name == "comment-only-file" {
				continue
			}
			rec(append(cur, a))
		}
	}
	rec(nil)
	var out [][][]int
	var recF func(cur [][]int)
	recF = func(cur [][]int) {
		if len(cur) > 0 {
			out = append(out, append([][]int{}, cur...))
		}
		if len(cur) == maxFiles {
			return
		}
		for _, f := range files {
			recF(append(cur, f))
		}
	}
	recF(nil)
	return out
}

func c10Run(c *fw.Ctx) error {
	work, err := os.MkdirTemp("", "mc-c10-")
	if err != nil {
		return err
	}
	defer os.RemoveAll(work)
	maxFiles, maxDocs := 2, 2
	if c.Thorough() {
		maxFiles, maxDocs = 2, 3
	}
	hist := c10Histories(maxFiles, maxDocs)
	c.Res.Bound = fmt.Sprintf("%d histories (<= %d files x 0..%d documents over a %d-document alphabet, incl. empty files) x %d expressions x {default, -N; --header-preprocess=false for 5 of them} on the real binary; the same histories as JSON value streams (-p json -o yaml) x 9 expressions; 6 file orders x 4 expressions for each of 7 other input formats (toml lua xml properties csv tsv json, one document per file); plus eval vs eval-all on every single-document input", len(hist), maxFiles, maxDocs, len(c10Alphabet), len(c10Exprs))
	var idx int64
	// the small sections come first: should the time budget end the enumeration, they are complete
	product := func(jsonIn bool) {
		exprs := c10Exprs
		if jsonIn {
			exprs = c10JSONExprs
		}
		for hi, h := range hist {
			for _, e := range exprs {
				for _, flags := range [][]string{nil, {"-N"}, {"--header-preprocess=false"}} {
					if len(flags) > 0 && flags[0] == "--header-preprocess=false" {
						// only where a header comment exists, and for a handful of expressions
						commented := false
						for _, f := range h {
							for _, a := range f {
								if strings.HasPrefix(c10Alphabet[a].Text, "#") {
									commented = true
								}
							}
						}
						if jsonIn || !commented || !(e == "." || e == ".a" || e == "select(.a)" || e == "document_index" || e == "length") {
							continue
						}
					}
					if jsonIn {
						skip := false
						for _, f := range h {
							for _, a := range f {
								if a >= len(c10JSONAlphabet) {
									skip = true
								}
							}
						}
						if skip {
							continue
						}
					}
					idx++
					if !c.Mine(idx) {
						continue
					}
					if c.Expired() {
						return
					}
					cs := c10Case{Files: h, Expr: e, Flags: flags, Mode: "eval", JSON: jsonIn}
					kind, detail, outcome := c10Check(work, cs)
					c.Eval(1)
					c.Validated(1)
					nd := 0
					for _, f := range h {
						nd += len(f)
					}
					key := fmt.Sprintf("%v|%s|%v|%v", h, e, flags, jsonIn)
					c.Outcome(key + outcome)
					if nd >= 2 {
						c.Nontrivial(key)
					}
					if kind != "" {
						c.Count("mismatch_"+kind, 1)
						sig := kind + "/" + e
						if jsonIn {
							sig = kind + "/json-input/" + e
						}
						if len(flags) > 0 {
							sig += "/-N"
						}
						c.Violation(sig, int64(nd)*1e6+int64(hi), cs, fmt.Sprintf("yq %s %q on files %v: %s", strings.Join(flags, " "), e, c10Describe(h), detail))
					} else if idx%4001 == 5 {
						c.Sample(map[string]interface{}{"files": c10Describe(h), "expr": e, "flags": flags, "outcome": outcome})
					}
				}
			}
		}
	}
	// several files of every other input format (one document per file)
	for _, f := range c10Formats {
		for _, order := range [][]int{{0}, {0, 1}, {1, 0}, {0, 0}, {0, 1, 0}, {1, 1, 0}} {
			for _, e := range []string{".", ".a", "select(.a == 2)", "keys"} {
				idx++
				if !c.Mine(idx) || c.Expired() {
					continue
				}
				kind, detail := c10CheckFormat(work, f.ext, order, e)
				c.Eval(1)
				c.Validated(1)
				key := fmt.Sprintf("format|%s|%v|%s", f.ext, order, e)
				c.Outcome(key + kind)
				if len(order) >= 2 {
					c.Nontrivial(key)
				}
				if kind != "" {
					c.Count("mismatch_"+kind, 1)
					c.Violation(kind+"/input-format="+f.ext+"/"+e, int64(len(order))*1e6, c10Case{Files: [][]int{order}, Expr: e, Mode: "format:" + f.ext}, detail)
				}
			}
		}
	}
	// eval = eval-all on single-document inputs (expressions whose traversals are total on that document)
	for a := range c10Alphabet {
		for _, e := range c10Exprs {
			idx++
			if !c.Mine(idx) {
				continue
			}
			dir, _ := os.MkdirTemp(work, "ea-")
			os.WriteFile(filepath.Join(dir, "f0.yml"), []byte(c10Alphabet[a].Text), 0o644)
			o1, _, x1, _ := c10RunYq(dir, e, "f0.yml")
			o2, _, x2, _ := c10RunYq(dir, "ea", e, "f0.yml")
			os.RemoveAll(dir)
			c.Eval(1)
			c.Validated(1)
			if x1 != x2 || (x1 == 0 && o1 != o2) {
				c.Violation("eval-vs-eval-all/"+e, int64(a), c10Case{Files: [][]int{{a}}, Expr: e, Mode: "eval-all-single"},
					fmt.Sprintf("single document %q, expression %q: eval prints %q (exit %d), eval-all prints %q (exit %d)", c10Alphabet[a].Text, e, o1, x1, o2, x2))
			}
		}
	}
	product(true)
	product(false)
	return nil
}

func c10Describe(h [][]int) string {
	var fs []string
	for _, f := range h {
		var ds []string
		for _, d := range f {
			ds = append(ds, c10Alphabet[d].Name)
		}
		fs = append(fs, "["+strings.Join(ds, ",")+"]")
	}
	return strings.Join(fs, " ")
}

func c10Replay(raw json.RawMessage) (bool, string, error) {
	var cs c10Case
	if err := json.Unmarshal(raw, &cs); err != nil {
		return false, "", err
	}
	if strings.HasPrefix(cs.Mode, "format:") {
		work, err := os.MkdirTemp("", "mc-c10-")
		if err != nil {
			return false, "", err
		}
		defer os.RemoveAll(work)
		kind, detail := c10CheckFormat(work, strings.TrimPrefix(cs.Mode, "format:"), cs.Files[0], cs.Expr)
		return kind != "", kind + ": " + detail, nil
	}
	work, err := os.MkdirTemp("", "mc-c10-")
	if err != nil {
		return false, "", err
	}
	defer os.RemoveAll(work)
	if cs.Mode == "eval-all-single" {
		a := cs.Files[0][0]
		os.WriteFile(filepath.Join(work, "f0.yml"), []byte(c10Alphabet[a].Text), 0o644)
		o1, _, x1, _ := c10RunYq(work, cs.Expr, "f0.yml")
		o2, _, x2, _ := c10RunYq(work, "ea", cs.Expr, "f0.yml")
		bad := x1 != x2 || (x1 == 0 && o1 != o2)
		return bad, fmt.Sprintf("eval %q/%d vs eval-all %q/%d", o1, x1, o2, x2), nil
	}
	kind, detail, _ := c10Check(work, cs)
	return kind != "", fmt.Sprintf("yq %v %q on %s: %s: %s", cs.Flags, cs.Expr, c10Describe(cs.Files), kind, detail), nil
}

func init() {
	registerLater(func() {
		fw.Register(&fw.Check{
			ID: "C10", Level: "model_checking",
			Rule: "every history of <= F files each with 0..K documents over the document alphabet (maps with/without leading comment or explicit start marker, scalars, sequence; empty files; also as streams of JSON values read with -p json) x 24 document-local expressions (incl. filters that print nothing for some documents, by position and by kind) (incl. in-place updates of a literal owned by the shared parsed tree) x {default, -N}, run by the real binary; " +
				"oracle: the output is, in order, the solo output of every document (same expression on a one-document file) with exactly one separator line between consecutive printing documents (none required under -N), evaluation stops at the first document that fails on its own, " +
				"document_index/file_index/filename equal the true position, zero documents = `yq -n`; eval = eval-all on single-document inputs; non-trivial = history with at least two documents",
			Assumptions: []string{"comment-only and empty *documents* are not generated here (YAML itself does not count them as documents; the identity on such streams is C05's subject); empty files are"},
			Budget: func(t string) time.Duration {
				if t == "thorough" {
					return 40 * time.Minute
				}
				return 4 * time.Minute
			},
			Run: c10Run, Replay: c10Replay,
		})
	})
}
