package checks

import (
	"bufio"
	"bytes"
	"encoding/json"
	"fmt"
	"os"
	"os/exec"
	"path/filepath"
	"regexp"
	"runtime/debug"
	"strconv"
	"strings"
	"syscall"
	"time"

	"github.com/mikefarah/yq/v4/pkg/yqlib"

	"verif/mc/internal/fw"
	"verif/mc/internal/impl"
	"verif/mc/internal/val"
)

// C11 – every input is answered with a result or an error, never a crash or a hang.
// Exhaustive enumeration of expression token sequences, of input byte strings and corruptions per format, and of
// (document, output format) pairs, executed by the real parser/evaluator/decoders/encoders inside an isolated child
// process: a recovered panic, a fatal runtime error (child dies) or a stall (no progress for 60 s) is a violation.

var c11Tokens = strings.Split(strings.TrimSpace(`
line_comment head_comment foot_comment ( ) .[ [ ] { } ... .. $x as ref : length line column eval to_number map_values map filter pick omit flatten(1) flatten
format_datetime now tz from_unix to_unix with_dtf error shuffle sort_keys array_to_map to_yaml(1) to_xml(1) to_json(1) from_yaml to_yaml to_json @json from_props to_props
from_xml to_xml @xml from_csv @csv from_tsv @tsv @base64d @base64 @urid @uri @sh load_str load splitDoc select has unique_by unique group_by explode or and not ireduce join sub match capture
test sort_by sort reverse any_c any all_c all contains split parent(2) parent keys key is_key filename file_index path set_path del_paths to_entries from_entries with_entries with collect del
style tag kind anchor alias comments= comments|= ; // document_index upcase downcase trim to_string 0x1F 1e3 1.5 -1 0 1 2 1000 true false null ~ "a" "" "a\nb" "\(.)" "x*" strenv(HOME) env(HOME) envsubst(ne) envsubst
== != >= <= > < min max |= = |=c .a ."a b" .a? .* .a.b | . , *= * *+ *d *? *n / % += + -= - pivot #c [] {} .[0] .[-1] .[5] .[-5:] .[1:] .[:-1] .[] style= tag= anchor= alias= .[-9223372036854775808]
`), "\n")

func c11TokenList() []string {
	var out []string
	for _, l := range c11Tokens {
		out = append(out, strings.Fields(l)...)
	}
	// fields split breaks tokens with spaces; add them back
	out = append(out, `."a b"`, `"a b"`, "explode(.)", "select(.)", "map(.)", "sort_by(.)", "with(.; .)", "del(.)", `has("a")`, "group_by(.)", "unique_by(.)", "with_entries(.)", "any_c(.)", "sort_keys(..)", "pick([0])",
		// blanks of every kind inside the parenthesised number of the operators whose rule text is re-parsed by hand
		"flatten( 1 )", "flatten(\t1)", "to_json(\n0)", "to_yaml(1 )", "to_xml( 1)", "parent(\t1\t)", `omit(["a"])`, "eval(.)", "to_entries", "(.. | select(tag == \"!!int\"))", ".. |= .", "... style=\"\"",
		// every node turned into an alias by name (the operator does not look the anchor up)
		"(.. alias=\"x\")", "(... alias=\"nowhere\")")
	return out
}

var c11Docs = []string{
	"null\n", "5\n", "hello world\n", "{}\n", "a: 1\nb: [1, 2]\nc: {d: x}\n", "[]\n", "- 1\n- a\n- [2, 3]\n- {k: v}\n", "a: [{b: {c: [1, {d: 2}]}}]\n",
	"x: &x {p: 1, q: [1]}\ny: *x\nz:\n  <<: *x\n  r: 2\nw: [*x, &s s, *s]\n", "a: &x [*x, *x]\nb: &y {k: *y}\n", "- 0x1F\n- 1.5\n- ~\n- .inf\n- 2021-01-01T00:00:00Z\n- !t v\n- |\n  lit\n",
	// a collection tag on a node of the other kind
	"[!!map [1]]\n", "[!!seq {a: 1}, !!seq {b: 2}]\n", "!!seq {a: 1}\n", "!!map [1, 2]\n",
	// merge keys whose value is not an alias
	"a: {<<: foo, b: 1}\nc: {<<: {p: 1}, q: 2}\nd: {<<: [{r: 1}, bar], s: 2}\n",
	// explicit core tags on values the tag's parser does not expect (every consumer of a tagged number must cope)
	"- !!float NaN\n- 1.5\n- !!float nan\n- .nan\n- !!int x\n- !!float abc\n- !!bool maybe\n- !!int 99999999999999999999\n- !!null x\n",
}

type c11Fmt struct {
	name  string
	chars []string
	seeds []string
}

var c11Formats = []c11Fmt{
	{"yaml", []string{"a", ":", " ", "-", "\n", "[", "]", "{", "}", ",", "&", "*", "!", "|", ">", "'", "\"", "#", "?", "<", "%", "\t"},
		[]string{"a: 1\nb:\n  - x\n  - y: 2\n", "x: &a {p: 1}\ny: *a\nz: {<<: *a}\n", "- |\n  lit\n- >-\n  fold\n- 'q'\n- \"d\\n\"\n", "--- # c\na: !t 1\n---\n- b\n...\n", "? [a, b]\n: v\n"}},
	{"json", []string{"a", "\"", ":", ",", "{", "}", "[", "]", "1", "-", ".", "e", "\\", "t", "n", " "},
		[]string{`{"a": [1, 2.5e3, true, null, "x\u00e9\n"], "b": {"c": {}}}`, `[[], {}, -0, 1E-2, "\ud83d\ude00"]`, `"s"`, `{"a": 1}{"b": 2}`}},
	{"xml", []string{"<", ">", "/", "a", " ", "=", "\"", "&", ";", "!", "-", "?", "[", "]"},
		[]string{`<?xml version="1.0"?><r a="1"><c>t</c><c/><!-- k --><d><![CDATA[x]]></d></r>`, `<a xmlns:n="u"><n:b n:c="d">&amp;&lt;</n:b></a>`, `<!DOCTYPE r [<!ENTITY e "v">]><r>&e;</r>`, `<a>1<b>2</b>3</a>`, `<a></a></b><?x y?>`, `<a></a></b><!DOCTYPE z>`, `<a></a></b><!-- c -->t`}},
	{"toml", []string{"a", "=", "1", "\"", "[", "]", ".", "\n", "{", "}", ",", "#", " ", "'", "-"},
		[]string{"a = 1\nb = \"s\"\n[t]\nc = [1, 2]\nd = {e = 1.5}\n[[arr]]\nx = 1\n[[arr]]\nx = 2\n", "d = 1979-05-27T07:32:00Z\nf = inf\nh = 0x1F\ns = '''m\nl'''\n", "a.b.c = true\n\"q k\" = 1\n"}},
	{"csv", []string{"a", ",", "\"", "\n", "1", " ", "\r", ";"},
		[]string{"a,b,c\n1,2,3\n\"x,y\",\"q\"\"r\",\n", "h\n\n1\n", "a,b\n1\n1,2,3\n"}},
	{"tsv", []string{"a", "\t", "\"", "\n", "1", " ", "\r"},
		[]string{"a\tb\n1\t2\n\"x\ty\"\tz\n"}},
	{"props", []string{"a", "=", ":", " ", "\n", "#", "!", "\\", ".", "[", "]", "1", "$", "{", "}"},
		[]string{"a.b = 1\na.c[0] = x\n# c\nd\\ e : f \\\n  g\nk=${a.b}\n", "a = 1\na.b = 2\n", "x[1] = a\nx[0] = b\n"}},
	{"lua", []string{"r", "e", "t", "u", "n", " ", "{", "}", "=", "\"", ",", ";", "[", "]", "1", "-", "a"},
		[]string{"return {\n\ta = 1;\n\t[\"b c\"] = {1, 2, {x = nil}};\n\td = \"s\\n\";\n};\n", "return 1", "return {[1]=\"a\",[3]=\"c\"}", "local x = {}\nreturn x"}},
	{"base64", []string{"Y", "Q", "=", "a", "+", "/", "-", "_", " ", "\n", "!"}, []string{"YQ==", "YWJj", "Zm9vYmFy\n", "e30="}},
	{"uri", []string{"a", "%", "2", "0", "+", "G", "&", "=", " ", "z", "F"}, []string{"a%20b", "%7B%22a%22%3A1%7D", "a+b%", "%E9%"}},
}

var c11OutFormats = []string{"yaml", "json", "props", "csv", "tsv", "xml", "base64", "uri", "toml", "shell", "lua", "sh",
	"lua-globals", "lua-unquoted", "props-brackets", "props-wrapped", "xml-noindent", "yaml-wrapped", "json-indent", "csv-semicolon"}

type c11Case struct {
	Kind   string `json:"kind"` // expr | decode | encode
	Text   string `json:"text"`
	Format string `json:"format,omitempty"`
	Doc    string `json:"doc,omitempty"`
	Small  bool   `json:"small_documents_only,omitempty"` // probe: evaluate on the ladder of tiny documents only
}

// c11SmallDocs: the ladder used to tell a computation whose size grows geometrically with the document (it ends on every tiny
// document) from one that does not end.
var c11SmallDocs = []string{"a: 1\n", "- 1\n", "a: 1\nb: 2\n", "- 1\n- 2\n", "a: [1]\n", "a: {b: 1}\n", "x: &x {p: 1}\ny: *x\n"}

// c11Probe re-runs an expression case on the ladder in a child; true = it terminates there without crashing.
func c11Probe(cs c11Case) bool {
	if cs.Kind != "expr" {
		return false
	}
	cs.Small = true
	raw, _ := json.Marshal(cs)
	exe, _ := os.Executable()
	f, _ := os.CreateTemp("", "c11-probe-*.json")
	f.Write(raw)
	f.Close()
	defer os.Remove(f.Name())
	cmd := exec.Command(exe, "c11one", f.Name())
	done := make(chan error, 1)
	if cmd.Start() != nil {
		return false
	}
	go func() { done <- cmd.Wait() }()
	select {
	case err := <-done:
		return err == nil
	case <-time.After(30 * time.Second):
		cmd.Process.Kill()
		<-done
		return false
	}
}

// c11Enumerate calls f for every case index in canonical order.
func c11Enumerate(tier string, f func(i int64, mk func() c11Case) bool) {
	var i int64
	emit := func(mk func() c11Case) bool { i++; return f(i, mk) }
	toks := c11TokenList()
	// expressions: all sequences of length <= 2 (thorough: 3 over the full list; quick: 3 over every other token)
	for _, a := range toks {
		a := a
		if !emit(func() c11Case { return c11Case{Kind: "expr", Text: a} }) {
			return
		}
		for _, b := range toks {
			b := b
			if !emit(func() c11Case { return c11Case{Kind: "expr", Text: a + " " + b} }) {
				return
			}
		}
	}
	step := 3
	if tier == "thorough" {
		step = 1
	}
	for ai := 0; ai < len(toks); ai++ {
		for bi := ai % step; bi < len(toks); bi += step {
			for ci := (ai + bi) % step; ci < len(toks); ci += step {
				a, b, c := toks[ai], toks[bi], toks[ci]
				if !emit(func() c11Case { return c11Case{Kind: "expr", Text: a + " " + b + " " + c} }) {
					return
				}
			}
		}
	}
	// arbitrary bytes as expressions
	exprBytes := []string{".", "[", "]", "(", ")", "{", "}", "|", ",", "\"", "\\", "$", "a", "1", "-", "=", "*", "+", "/", ":", ";", "#", "@", "?", "!", "<", " ", "\n", "\x00", "\xff", "é"}
	for _, a := range exprBytes {
		for _, b := range exprBytes {
			for _, c := range exprBytes {
				s := a + b + c
				if !emit(func() c11Case { return c11Case{Kind: "expr", Text: s} }) {
					return
				}
			}
		}
	}
	// inputs per format: every string of length <= L over the structural characters, every truncation and corruption of the seeds
	L := 4
	if tier == "thorough" {
		L = 5
	}
	for _, fm := range c11Formats {
		fm := fm
		var rec func(prefix string, depth int) bool
		rec = func(prefix string, depth int) bool {
			p := prefix
			if !emit(func() c11Case { return c11Case{Kind: "decode", Format: fm.name, Text: p} }) {
				return false
			}
			if depth == L {
				return true
			}
			for _, ch := range fm.chars {
				if !rec(prefix+ch, depth+1) {
					return false
				}
			}
			return true
		}
		if !rec("", 0) {
			return
		}
		for _, seed := range fm.seeds {
			seed := seed
			for cut := 0; cut <= len(seed); cut++ {
				t := seed[:cut]
				if !emit(func() c11Case { return c11Case{Kind: "decode", Format: fm.name, Text: t} }) {
					return
				}
			}
			for pos := 0; pos <= len(seed); pos++ {
				pos := pos
				if pos < len(seed) {
					if !emit(func() c11Case { return c11Case{Kind: "decode", Format: fm.name, Text: seed[:pos] + seed[pos+1:]} }) {
						return
					}
				}
				for _, ch := range fm.chars {
					ch := ch
					if !emit(func() c11Case { return c11Case{Kind: "decode", Format: fm.name, Text: seed[:pos] + ch + seed[pos:]} }) {
						return
					}
					if pos < len(seed) {
						if !emit(func() c11Case { return c11Case{Kind: "decode", Format: fm.name, Text: seed[:pos] + ch + seed[pos+1:]} }) {
							return
						}
					}
					if tier == "thorough" {
						// double corruption: a second replacement further right
						for pos2 := pos + 1; pos2 < len(seed); pos2 += 3 {
							pos2 := pos2
							for _, ch2 := range fm.chars[:4] {
								ch2 := ch2
								if !emit(func() c11Case {
									return c11Case{Kind: "decode", Format: fm.name, Text: seed[:pos] + ch + seed[pos:pos2] + ch2 + seed[pos2+1:]}
								}) {
									return
								}
							}
						}
					}
				}
			}
		}
	}
	// outputs: every output format applied to every document of U(n) and to special documents
	n := 3
	if tier == "thorough" {
		n = 4
	}
	var docs []string
	for _, d := range val.Universe(n, val.SigmaPlus(), []string{"a", "b c"}) {
		docs = append(docs, d.JSON())
	}
	docs = append(docs, c11Docs...)
	docs = append(docs, "? [1, 2]\n: v\n? {a: 1}\n: w\n", "~: 1\n1: 2\ntrue: 3\n", "a: !!binary YQ==\nb: !!set {x, y}\n", "\"\": 1\n\"a\\nb\": \"\\u0000\"\n", "a: .nan\nb: -.inf\nc: 1e400\n", "[[[[[[[[[[1]]]]]]]]]]\n",
		// comment hazards for the encoders that carry comments over: blank lines only, an empty comment, comments at every place
		"\n\n\na: 1\n", "\n\n\n\n- 1\n", "#\na: 1 #\n#\n", "# \n\n# x\na: 1\n", "a: 1\n\n\n\n# foot\n", "---\n\n\n\na: 1\n", "# h\na: # la\n  # hb\n  b: 1 # lb\n  # fb\n\n# fa\n", "- # l\n  - 1\n# f\n",
		"# only\n", "#\n", "\n\n\n")
	for _, of := range c11OutFormats {
		for _, d := range docs {
			of, d := of, d
			if !emit(func() c11Case { return c11Case{Kind: "encode", Format: of, Doc: d} }) {
				return
			}
		}
	}
	// command-line options that take a value: every option x a small domain of values (empty, negative, oversized, a
	// clashing name) x every format it can matter for, on the real binary
	for _, fl := range c11FlagCases() {
		fl := fl
		if !emit(func() c11Case { return fl }) {
			return
		}
	}
}

var c11FlagInputs = map[string]string{
	"yaml":  "a: {b: 1, c: [x, {d: ~}]}\n+@id: v\n+content: t\n",
	"xml":   "<?xml version=\"1.0\"?><!DOCTYPE r><r id=\"1\">t<c k=\"v\">u</c><?pi x?></r>\n",
	"csv":   "a,b\n1,\"x;y\"\n",
	"props": "a.b = 1\nc = 2\n",
	"lua":   "return {a = {1, 2}}\n",
	"seq":   "- {a: 1, b: x}\n- {a: 2, b: y}\n",
	"front": "---\na: 1\n---\nbody\n",
}

func c11FlagCases() []c11Case {
	var out []c11Case
	add := func(input string, flags ...string) {
		out = append(out, c11Case{Kind: "flags", Format: input, Text: strings.Join(flags, "\x00")})
	}
	for _, ind := range []string{"-1", "-64", "0", "1", "64"} {
		for _, of := range []string{"yaml", "json", "props", "csv", "tsv", "xml", "base64", "uri", "toml", "shell", "lua"} {
			add("yaml", "-I", ind, "-o="+of, ".")
			add("seq", "-I", ind, "-o="+of, ".")
			add("yaml", "-I", ind, "-o="+of, ".a.b")
		}
		add("yaml", "-I", ind, `.a | to_json`)
		add("yaml", "-I", ind, `.a | to_yaml | from_yaml`)
		add("yaml", "-I", ind, `.a | to_xml`)
	}
	for _, opt := range []string{"--xml-attribute-prefix", "--xml-content-name", "--xml-proc-inst-prefix", "--xml-directive-name"} {
		for _, v := range []string{"", "+", "+content", "+@", "a", " ", "\n", "é"} {
			add("yaml", opt+"="+v, "-o=xml", ".")
			add("xml", opt+"="+v, "-p=xml", "-o=xml", ".")
			add("xml", opt+"="+v, "-p=xml", "-o=yaml", ".")
		}
	}
	for _, v := range []string{"", "ab", "\n", "\"", "é", ",", ";"} {
		add("seq", "--csv-separator="+v, "-o=csv", ".")
		add("csv", "--csv-separator="+v, "-p=csv", "-o=yaml", ".")
		add("csv", "--csv-separator="+v, "-p=csv", "-o=csv", ".")
	}
	for _, v := range []string{"", "\n", "=", "é", "  "} {
		add("yaml", "--properties-separator="+v, "-o=props", ".")
		add("props", "--properties-separator="+v, "-p=props", "-o=props", ".")
		add("yaml", "--lua-prefix="+v, "--lua-suffix="+v, "-o=lua", ".")
		add("lua", "--lua-prefix="+v, "-p=lua", "-o=lua", ".")
	}
	for _, v := range []string{"", "extract", "process", "bogus"} {
		add("front", "--front-matter="+v, ".")
		add("yaml", "--front-matter="+v, ".")
		add("front", "--front-matter="+v, "-s", ".a", ".")
		add("front", "--front-matter="+v, "select(.nope)")
		add("front", "--front-matter="+v, "-o=json", ".")
	}
	for _, v := range []string{"", "bogus", "a", "auto"} {
		add("yaml", "-o="+v, ".")
		add("yaml", "-p="+v, ".")
	}
	for _, v := range []string{"", ".a", ".missing", "1", `"x/" + $index`, "("} {
		add("yaml", "-s", v, ".")
		add("yaml", "--expression", v)
	}
	for _, v := range []string{"", "missing-file", "."} {
		add("yaml", "--from-file="+v)
		add("yaml", "--split-exp-file="+v, ".")
	}
	return out
}

// c11Cat is set by c11Exec to the outcome category of the last case (vacuity signal in the evidence)
var c11Cat string

// c11Exec runs one case; a panic is recovered and returned as (stack, true).
func c11Exec(cs c11Case) (sig string, detail string) {
	defer func() {
		if r := recover(); r != nil {
			st := string(debug.Stack())
			if p, ok := r.(*impl.Panic); ok {
				st = p.Stack
				r = p.V
			}
			sig = "panic/" + c11TopFrame(st)
			detail = fmt.Sprintf("panic: %v\n%s", r, clip(st, 1500))
		}
	}()
	switch cs.Kind {
	case "expr":
		e, err := yqlib.ExpressionParser.ParseExpression(cs.Text)
		if err != nil || e == nil {
			c11Cat = "expr:rejected-by-parser"
			return "", ""
		}
		c11Cat = "expr:evaluated-error-only"
		docSet := c11Docs
		if cs.Small {
			docSet = c11SmallDocs
		}
		for _, d := range docSet {
			docs, derr, _ := impl.DecodeYAML(d)
			if derr != nil {
				continue
			}
			for _, root := range docs {
				res, eerr, pan := impl.Eval(e, root)
				if pan != nil {
					panic(pan)
				}
				if eerr == nil {
					c11Cat = "expr:evaluated-with-results"
				}
				if eerr == nil && len(res) > 0 && len(res) < 200 {
					if _, _, ppan := impl.PrintYAML(res); ppan != nil {
						panic(ppan)
					}
				}
			}
		}
	case "decode":
		f, err := yqlib.FormatFromString(cs.Format)
		if err != nil {
			return "harness", err.Error()
		}
		dec := f.DecoderFactory()
		c11Cat = "decode:" + cs.Format + ":rejected"
		if err := dec.Init(strings.NewReader(cs.Text)); err != nil {
			return "", ""
		}
		for k := 0; k < 50; k++ {
			n, err := dec.Decode()
			if err != nil {
				break
			}
			c11Cat = "decode:" + cs.Format + ":decoded"
			// what was decoded must also survive being printed
			for _, of := range []string{"yaml", "json"} {
				if _, _, ppan := impl.Print([]*yqlib.CandidateNode{n}, c11Encoder(of)); ppan != nil {
					panic(ppan)
				}
			}
		}
	case "flags":
		dir, err := os.MkdirTemp("", "mc-c11-flags-")
		if err != nil {
			return "harness", err.Error()
		}
		defer os.RemoveAll(dir)
		os.WriteFile(filepath.Join(dir, "in.txt"), []byte(c11FlagInputs[cs.Format]), 0o644)
		args := append(strings.Split(cs.Text, "\x00"), "in.txt")
		_, serr, exit, rerr := c10RunYq(dir, args...)
		c11Cat = fmt.Sprintf("flags:exit=%d", exit)
		if rerr != nil {
			return "hang/flags/" + strings.SplitN(args[0], "=", 2)[0], rerr.Error()
		}
		if strings.Contains(serr, "panic:") || strings.Contains(serr, "goroutine 1 [") || strings.Contains(serr, "fatal error:") {
			return "panic/" + c11TopFrame(serr), fmt.Sprintf("yq %q: exit %d\n%s", args, exit, clip(serr, 1500))
		}
	case "encode":
		docs, derr, _ := impl.DecodeYAML(cs.Doc)
		if derr != nil {
			return "", ""
		}
		c11Cat = "encode:" + cs.Format
		docs2, _, _ := impl.DecodeYAML(cs.Doc)
		for i, d := range docs2 {
			d.SetDocument(uint(len(docs) + i))
		}
		if _, _, ppan := impl.Print(append(docs, docs2...), c11Encoder(cs.Format)); ppan != nil {
			panic(ppan)
		}
	}
	return "", ""
}

func c11Encoder(name string) yqlib.Encoder {
	switch name {
	case "sh":
		return yqlib.NewShEncoder()
	case "lua-globals":
		p := yqlib.NewDefaultLuaPreferences()
		p.Globals = true
		return yqlib.NewLuaEncoder(p)
	case "lua-unquoted":
		p := yqlib.NewDefaultLuaPreferences()
		p.UnquotedKeys = true
		p.DocPrefix, p.DocSuffix = "x = ", "\n"
		return yqlib.NewLuaEncoder(p)
	case "props-brackets":
		p := yqlib.NewDefaultPropertiesPreferences()
		p.UseArrayBrackets = true
		p.KeyValueSeparator = ":"
		return yqlib.NewPropertiesEncoder(p)
	case "props-wrapped":
		p := yqlib.NewDefaultPropertiesPreferences()
		p.UnwrapScalar = false
		return yqlib.NewPropertiesEncoder(p)
	case "xml-noindent":
		p := yqlib.NewDefaultXmlPreferences()
		p.Indent = 0
		return yqlib.NewXMLEncoder(p)
	case "yaml-wrapped":
		p := impl.YamlPrefs()
		p.UnwrapScalar = false
		p.Indent = 7
		return yqlib.NewYamlEncoder(p)
	case "json-indent":
		p := impl.JSONPrefs()
		p.Indent = 3
		p.UnwrapScalar = true
		return yqlib.NewJSONEncoder(p)
	case "csv-semicolon":
		p := yqlib.NewDefaultCsvPreferences()
		p.Separator = ';'
		return yqlib.NewCsvEncoder(p)
	}
	if name == "json" {
		return yqlib.NewJSONEncoder(impl.JSONPrefs())
	}
	f, err := yqlib.FormatFromString(name)
	if err != nil {
		panic("harness: " + err.Error())
	}
	return f.EncoderFactory()
}

// c11TopFrame: the innermost yqlib function on the panicking stack (the mechanical signature of a crash).
var c11FrameRe = regexp.MustCompile(`github\.com/mikefarah/yq/v4/pkg/yqlib\.((?:\(\*?\w+\)\.)?\w+(?:\.func\d+)*)`)

func c11TopFrame(stack string) string {
	// frames are listed innermost first; skip everything up to the runtime's panic frame when there is one
	if i := strings.Index(stack, "\npanic("); i >= 0 {
		if m := c11FrameRe.FindStringSubmatch(stack[i:]); m != nil {
			return m[1]
		}
	}
	if m := c11FrameRe.FindStringSubmatch(stack); m != nil {
		return m[1]
	}
	if strings.Contains(stack, "stack overflow") || strings.Contains(stack, "goroutine stack exceeds") {
		return "stack-overflow"
	}
	if strings.Contains(stack, "out of memory") {
		return "out-of-memory"
	}
	return "outside-yqlib"
}

func c11RecursionFrame(log string) string {
	counts := map[string]int{}
	best, bestN := "unknown", 0
	for _, m := range c11FrameRe.FindAllStringSubmatch(log, -1) {
		counts[m[1]]++
		if counts[m[1]] > bestN {
			best, bestN = m[1], counts[m[1]]
		}
	}
	if strings.Contains(log, "stack overflow") {
		return "stack-overflow/" + best
	}
	if strings.Contains(log, "out of memory") || strings.Contains(log, "cannot allocate") {
		return "out-of-memory/" + best
	}
	return best
}

// C11Child is the body of the isolated child process: runs the cases of one shard from index `from`, writes the index it is
// working on to the progress file before each case and one JSON line per recovered panic to the result file.
func C11Child(tier string, shard, nshards int, from int64, deadlineUnix int64, progressPath, resultPath string) int {
	// a runaway recursion must end in this child's death, not in the sandbox running out of memory
	lim := syscall.Rlimit{Cur: 6 << 30, Max: 6 << 30}
	_ = syscall.Setrlimit(syscall.RLIMIT_AS, &lim)
	debug.SetMaxStack(256 << 20)
	res, err := os.OpenFile(resultPath, os.O_APPEND|os.O_CREATE|os.O_WRONLY, 0o644)
	if err != nil {
		fmt.Fprintln(os.Stderr, err)
		return 3
	}
	defer res.Close()
	w := bufio.NewWriter(res)
	defer w.Flush()
	var ran int64
	last := from
	cats := map[string]int64{}
	pf, err := os.OpenFile(progressPath, os.O_CREATE|os.O_WRONLY, 0o644)
	if err != nil {
		fmt.Fprintln(os.Stderr, err)
		return 3
	}
	defer pf.Close()
	c11Enumerate(tier, func(i int64, mk func() c11Case) bool {
		if int(i%int64(nshards)) != shard || i < from {
			return true
		}
		if ran%256 == 0 {
			if time.Now().Unix() > deadlineUnix {
				os.WriteFile(progressPath+".deadline", []byte("1"), 0o644)
				return false
			}
		}
		cs := mk()
		b, _ := json.Marshal(cs)
		rec := []byte(strconv.FormatInt(i, 10) + "\n" + string(b) + "\n")
		if len(rec) < 4096 {
			rec = append(rec, bytes.Repeat([]byte(" "), 4096-len(rec))...)
		}
		pf.WriteAt(rec, 0) // one write, no truncation: a reader never sees an empty record
		c11Cat = ""
		sig, detail := c11Exec(cs)
		cats[c11Cat]++
		ran++
		last = i
		if sig != "" {
			line, _ := json.Marshal(map[string]interface{}{"i": i, "sig": sig, "detail": detail, "case": cs})
			w.Write(line)
			w.WriteByte('\n')
			w.Flush()
		}
		return true
	})
	cb, _ := json.Marshal(cats)
	os.WriteFile(progressPath+".done", []byte(fmt.Sprintf("%d %d\n%s", ran, last, cb)), 0o644)
	return 0
}

func c11Run(c *fw.Ctx) error {
	work, err := os.MkdirTemp("", "mc-c11-")
	if err != nil {
		return err
	}
	defer os.RemoveAll(work)
	exe, _ := os.Executable()
	progress := filepath.Join(work, "progress")
	results := filepath.Join(work, "results")
	from := int64(0)
	var total int64
	c11Enumerate(c.Tier, func(i int64, _ func() c11Case) bool { total = i; return true })
	c.Res.Bound = fmt.Sprintf("%d cases: expression token sequences of length <= 2 over %d spellings (one per lexer rule plus hazards) and length 3 (thorough: all; quick: one third), all 3-character strings over 31 bytes as expressions, evaluated on %d documents; per input format every string of length <= L over its structural characters plus every truncation and every 1-edit (thorough: 2-edit) corruption of the seeds; every output format x U(n) and special documents; every value-taking command-line option x a small value domain on the binary", total, len(c11TokenList()), len(c11Docs))
	restarts := 0
	for {
		os.Remove(progress + ".done")
		cmd := exec.Command(exe, "c11child", c.Tier, strconv.Itoa(c.Shard), strconv.Itoa(c.NShards), strconv.FormatInt(from, 10), strconv.FormatInt(c.Deadline.Unix(), 10), progress, results)
		cmd.Env = append(os.Environ(), "GOMAXPROCS=2", "TZ=UTC", "HOME="+work)
		logf, _ := os.Create(filepath.Join(work, "child.log"))
		cmd.Stdout, cmd.Stderr = logf, logf
		if err := cmd.Start(); err != nil {
			return err
		}
		done := make(chan error, 1)
		go func() { done <- cmd.Wait() }()
		var werr error
		stalled := false
		lastProgress := ""
		lastChange := time.Now()
	wait:
		for {
			select {
			case werr = <-done:
				break wait
			case <-time.After(2 * time.Second):
				b, _ := os.ReadFile(progress)
				if string(b) != lastProgress {
					lastProgress = string(b)
					lastChange = time.Now()
				} else if time.Since(lastChange) > 60*time.Second {
					stalled = true
					cmd.Process.Kill()
					werr = <-done
					break wait
				}
			}
		}
		logf.Close()
		if _, err := os.Stat(progress + ".done"); err == nil && werr == nil {
			break
		}
		// the child died or stalled on the case recorded in the progress file
		b, _ := os.ReadFile(progress)
		parts := strings.SplitN(string(b), "\n", 2)
		idx, _ := strconv.ParseInt(strings.TrimSpace(parts[0]), 10, 64)
		var cs c11Case
		if len(parts) == 2 {
			json.Unmarshal([]byte(strings.TrimSpace(strings.SplitN(parts[1], "\n", 2)[0])), &cs)
		}
		lg, _ := os.ReadFile(filepath.Join(work, "child.log"))
		if idx == 0 {
			return fmt.Errorf("child failed before its first case: %v\n%s", werr, clip(string(lg), 2000))
		}
		kind := "fatal"
		detail := fmt.Sprintf("the process died (%v) while working on this case:\n%s", werr, clip(string(lg), 1500))
		// a fatal error (stack overflow, out of memory) has no single culprit frame: name the most frequent yqlib function
		// of the trace and the case itself, so that a listed finding masks nothing but that very case
		sigTail := c11RecursionFrame(string(lg)) + "/" + cs.Kind + ":" + cs.Format + cs.Text
		if stalled {
			kind = "hang"
			detail = "no progress for 60 s on this case (process killed)"
			sigTail = cs.Kind + "/" + cs.Format
		}
		// no progress, or memory exhausted: a computation that ends on every tiny document is growing geometrically with the
		// document (e.g. `... = sort_keys(..)`: every node receives a copy of every node), which is the program's meaning, not a loop
		if (stalled || strings.Contains(sigTail, "out-of-memory")) && c11Probe(cs) {
			c.Count("outcome expr:size-blowup (ends on every tiny document; stalled or out of memory on a larger one)", 1)
			c.SetAdd("size_blowup_expressions", cs.Text)
		} else {
			c.Violation(kind+"/"+sigTail, idx, cs, detail)
			c.Count(kind, 1)
		}
		from = idx + 1
		restarts++
		if restarts > 200 {
			c.Note("more than 200 crashes/stalls in one shard: enumeration stopped")
			c.Res.Exhaustive = false
			break
		}
	}
	if _, err := os.Stat(progress + ".deadline"); err == nil {
		c.Res.Exhaustive = false
		c.Note("time budget reached: enumeration stopped early")
	}
	if b, err := os.ReadFile(progress + ".done"); err == nil {
		var ran, last int64
		fmt.Sscanf(string(b), "%d %d", &ran, &last)
		if parts := strings.SplitN(string(b), "\n", 2); len(parts) == 2 {
			cats := map[string]int64{}
			if json.Unmarshal([]byte(parts[1]), &cats) == nil {
				for k, n := range cats {
					c.Count("outcome "+k, n)
					c.Outcome(k)
				}
			}
		}
		c.Eval(ran)
		c.Validated(ran)
		c.Res.NontrivialN += ran // every enumerated case is distinct by construction (canonical enumeration without repetition)
	}
	if f, err := os.Open(results); err == nil {
		sc := bufio.NewScanner(f)
		sc.Buffer(make([]byte, 1<<20), 1<<24)
		for sc.Scan() {
			var r struct {
				I      int64   `json:"i"`
				Sig    string  `json:"sig"`
				Detail string  `json:"detail"`
				Case   c11Case `json:"case"`
			}
			if json.Unmarshal(sc.Bytes(), &r) == nil {
				c.Violation(r.Sig, r.I, r.Case, r.Detail)
				c.Count("panic", 1)
			}
		}
		f.Close()
	}
	c.Outcome(fmt.Sprintf("shard %d completed", c.Shard))
	c.Sample(map[string]interface{}{"expr": ".[-5:] sort", "decode": map[string]string{"format": "toml", "text": "a = [1,"}, "encode": map[string]string{"format": "xml", "doc": "[1]"}})
	return nil
}

func c11Replay(raw json.RawMessage) (bool, string, error) {
	var cs c11Case
	if err := json.Unmarshal(raw, &cs); err != nil {
		return false, "", err
	}
	// run in a child so that a fatal error or a hang is observed, not suffered
	exe, _ := os.Executable()
	f, _ := os.CreateTemp("", "c11-*.json")
	f.Write(raw)
	f.Close()
	defer os.Remove(f.Name())
	cmd := exec.Command(exe, "c11one", f.Name())
	done := make(chan error, 1)
	var out strings.Builder
	cmd.Stdout, cmd.Stderr = &out, &out
	cmd.Start()
	go func() { done <- cmd.Wait() }()
	select {
	case err := <-done:
		if err != nil {
			return true, clip(out.String(), 1500), nil
		}
		return false, "", nil
	case <-time.After(90 * time.Second):
		cmd.Process.Kill()
		<-done
		if c11Probe(cs) {
			return false, "", nil // ends on every tiny document: geometric growth, not a loop
		}
		return true, "no termination within 90 s, on the tiny documents either", nil
	}
}

// C11One runs a single case (used by replay); exit 1 on panic.
func C11One(path string) int {
	lim := syscall.Rlimit{Cur: 6 << 30, Max: 6 << 30}
	_ = syscall.Setrlimit(syscall.RLIMIT_AS, &lim)
	debug.SetMaxStack(256 << 20)
	b, err := os.ReadFile(path)
	if err != nil {
		return 3
	}
	var cs c11Case
	json.Unmarshal(b, &cs)
	sig, detail := c11Exec(cs)
	if sig != "" {
		fmt.Println(sig)
		fmt.Println(detail)
		return 1
	}
	return 0
}

func init() {
	registerLater(func() {
		fw.Register(&fw.Check{
			ID: "C11", Level: "model_checking",
			Rule: "canonical enumeration without repetition of: expression token sequences (one spelling per lexer rule plus hazard literals; length <= 2 complete, length 3) and all 3-byte strings over 31 bytes, each parsed and evaluated on 10 documents and printed; " +
				"per input format (yaml json xml toml csv tsv props lua base64 uri) every byte string up to length L over the format's structural characters, every truncation and every single (thorough: double) corruption of valid seeds, decoded and re-encoded; every output format applied to every document of U(n) and to documents with aliases, non-string keys, special floats, deep nesting; " +
				"executed in an isolated child process per shard: recovered panic, process death or 60 s without progress is a violation; non-trivial = every enumerated case (distinct by construction)",
			Assumptions: []string{"'never hangs' is decided as: no progress for 60 s (or memory exhausted) on the case AND no termination within 30 s on a ladder of documents with at most two entries either; an expression that ends on the ladder is counted as size-blowup (its cost grows geometrically with the document, e.g. `... = sort_keys(..)`) and listed in the evidence"},
			Budget: func(t string) time.Duration {
				if t == "thorough" {
					return 45 * time.Minute
				}
				return 5 * time.Minute
			},
			Run: c11Run, Replay: c11Replay,
		})
	})
}
