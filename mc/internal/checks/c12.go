package checks

import (
	"bytes"
	"encoding/json"
	"fmt"
	"os"
	"os/exec"
	"path/filepath"
	"strings"
	"syscall"
	"time"

	"verif/mc/internal/fw"
)

// C12 – in-place edit is all-or-nothing. Fault/crash enumeration on the real binary (built with -tags verif):
// for every (input, expression, configuration) a recording run lists the file-system steps actually reached;
// then every single fault (and every pair, within the deviation bound) at every reached step – injected error,
// short write, SIGKILL before the step, SIGKILL after half a write – is executed and the target file inspected.

type c12Combo struct {
	Name    string   `json:"name"`
	Input   string   `json:"input"`
	Args    []string `json:"args"` // yq arguments without -i and without the file name
	XDev    bool     `json:"xdev"` // temp dir on another file system
	Mode    uint32   `json:"mode"`
	Front   bool     `json:"front"`
	EvalAll bool     `json:"eval_all"`
	AppDir  bool     `json:"append_only_dir,omitempty"` // with ImmDir: chattr +a instead of +i - new entries can be made but none replaced or removed: the sibling staging file is written, its rename fails, yq has to write the target itself after all
	ImmDir  bool     `json:"immutable_dir,omitempty"` // the target's directory accepts no new entries (chattr +i): neither the rename nor a sibling staging file is possible, yq has to write the target itself
}

type c12Case struct {
	Combo c12Combo `json:"combo"`
	Plan  string   `json:"plan"`
}

func yqBin() string { return filepath.Join(fw.VerifDir, "bin", "yq") }

func c12Inputs() map[string]string {
	big := &strings.Builder{}
	big.WriteString("a: 1\nitems:\n")
	for i := 0; big.Len() < 12*1024; i++ {
		fmt.Fprintf(big, "  - name: item-%04d\n    value: \"%s\"\n", i, strings.Repeat("x", 40))
	}
	// front matter files whose total size lies just below, at, just above and well beyond the 4096-byte buffer of the reader
	// that splits the front matter off: the text behind it is then handed over in several reads
	m := map[string]string{}
	head := "---\na: 1\ntitle: t\n---\n"
	for _, total := range []int{4095, 4096, 4097, 9000, 3*4096 + 5} {
		body := &strings.Builder{}
		for i := 0; body.Len() < total-len(head); i++ {
			fmt.Fprintf(body, "line %05d of the body; --- is not a separator here\n", i)
		}
		m[fmt.Sprintf("front-%d", total)] = head + body.String()[:total-len(head)]
	}
	for k, v := range map[string]string{
		"single": "# header\na: 1\nb: [1, 2] # c\n",
		"three":  "a: 1\n---\na: 2\n---\na: 3\n",
		"big":    big.String(),
		"front":  "---\na: 1\ntitle: t\n---\nbody text\nmore body\n",
		"bad2":   "a: 1\n---\na: [\n",
	} {
		m[k] = v
	}
	return m
}

func c12Combos(thorough bool) []c12Combo {
	in := c12Inputs()
	type ex struct {
		name  string
		input string
		args  []string
	}
	exprs := []ex{
		{"ok", "single", []string{".a = 5"}},
		{"ok3", "three", []string{".a += 1"}},
		{"okbig", "big", []string{".a = 5"}},
		{"parse-error", "single", []string{".a = ("}},
		{"decode-error-doc2", "bad2", []string{".a = 5"}},
		{"eval-error-doc2", "three", []string{`.a |= (select(. != 2) // error("boom"))`}},
		{"encode-error", "single", []string{"-o=csv", "."}},
		{"no-match-e", "single", []string{"-e", ".missing"}},
		{"ok-json-out", "single", []string{"-o=json", ".a = 5"}},
	}
	var out []c12Combo
	for _, e := range exprs {
		for _, xdev := range []bool{false, true} {
			for _, ea := range []bool{false, true} {
				for _, mode := range []uint32{0o640, 0o600} {
					if !thorough && mode == 0o600 && (e.name != "ok" || ea) {
						continue
					}
					if !thorough && ea && e.name != "ok" && e.name != "ok3" && e.name != "eval-error-doc2" {
						continue
					}
					args := e.args
					if ea {
						args = append([]string{"ea"}, args...)
					}
					out = append(out, c12Combo{Name: e.name, Input: in[e.input], Args: args, XDev: xdev, Mode: mode, EvalAll: ea})
				}
			}
		}
	}
	// the last resort: temp dir on another file system and a target directory that accepts no new entries (no faults injected here:
	// a direct write cannot be all-or-nothing; what is checked is that the file ends up with exactly the new content)
	for _, e := range []ex{{"ok", "single", []string{".a = 5"}}, {"shrinks", "single", []string{"del(.b)"}}, {"shrinks-big", "big", []string{"del(.items[2:])"}}, {"grows", "single", []string{`.c = "` + strings.Repeat("y", 300) + `"`}}, {"ok3", "three", []string{".a += 1"}}} {
		out = append(out, c12Combo{Name: "immutable-dir/" + e.name, Input: in[e.input], Args: e.args, XDev: true, Mode: 0o640, ImmDir: true})
		out = append(out, c12Combo{Name: "append-only-dir/" + e.name, Input: in[e.input], Args: e.args, XDev: true, Mode: 0o640, ImmDir: true, AppDir: true})
	}
	for _, xdev := range []bool{false, true} {
		out = append(out, c12Combo{Name: "front-matter", Input: in["front"], Args: []string{"--front-matter=process", ".a = 5"}, XDev: xdev, Mode: 0o640, Front: true})
		out = append(out, c12Combo{Name: "front-matter-no-results", Input: in["front"], Args: []string{"--front-matter=process", "select(.nope)"}, XDev: xdev, Mode: 0o640, Front: true})
		out = append(out, c12Combo{Name: "front-matter-parse-error", Input: in["front"], Args: []string{"--front-matter=process", ".a = ("}, XDev: xdev, Mode: 0o640, Front: true})
		for _, total := range []int{4095, 4096, 4097, 9000, 3*4096 + 5} {
			if !thorough && (total == 4095 || total == 4096 || (xdev && total != 9000)) {
				continue
			}
			out = append(out, c12Combo{Name: fmt.Sprintf("front-matter-%d-bytes", total), Input: in[fmt.Sprintf("front-%d", total)], Args: []string{"--front-matter=process", ".a = 5"}, XDev: xdev, Mode: 0o640, Front: true})
		}
	}
	return out
}

type c12Obs struct {
	Exit   int
	Killed bool
	Bytes  string
	Mode   uint32
	Stderr string
	Stdout string
	Steps  []string
}

// c12Exec runs yq once in a fresh scratch directory. inPlace=false gives the reference output on stdout.
func c12Exec(work string, cb c12Combo, plan string, inPlace, trace bool) (c12Obs, error) {
	dir, err := os.MkdirTemp(work, "run-")
	if err != nil {
		return c12Obs{}, err
	}
	defer os.RemoveAll(dir)
	target := filepath.Join(dir, "target.yml")
	if cb.ImmDir {
		os.Mkdir(filepath.Join(dir, "imm"), 0o755)
		target = filepath.Join(dir, "imm", "target.yml")
	}
	if err := os.WriteFile(target, []byte(cb.Input), os.FileMode(cb.Mode)); err != nil {
		return c12Obs{}, err
	}
	os.Chmod(target, os.FileMode(cb.Mode))
	if cb.ImmDir {
		attr := "i"
		if cb.AppDir {
			attr = "a"
		}
		if out, err := exec.Command("chattr", "+"+attr, filepath.Join(dir, "imm")).CombinedOutput(); err != nil {
			return c12Obs{}, fmt.Errorf("chattr +%s not possible here: %v %s", attr, err, out)
		}
		defer exec.Command("chattr", "-"+attr, filepath.Join(dir, "imm")).Run()
	}
	tmp := filepath.Join(dir, "tmp")
	if cb.XDev {
		tmp, err = os.MkdirTemp("/dev/shm", "mc-c12-")
		if err != nil {
			return c12Obs{}, err
		}
		defer os.RemoveAll(tmp)
	} else {
		os.Mkdir(tmp, 0o700)
	}
	args := append([]string{}, cb.Args...)
	if inPlace {
		args = append(args, "-i")
	}
	args = append(args, target)
	cmd := exec.Command(yqBin(), args...)
	tracePath := filepath.Join(dir, "trace")
	cmd.Env = []string{"TMPDIR=" + tmp, "HOME=" + dir, "TZ=UTC", "PATH=/usr/bin:/bin"}
	if plan != "" {
		cmd.Env = append(cmd.Env, "YQ_VERIF_PLAN="+plan)
	}
	if trace {
		cmd.Env = append(cmd.Env, "YQ_VERIF_TRACE="+tracePath)
	}
	var so, se bytes.Buffer
	cmd.Stdout, cmd.Stderr = &so, &se
	cmd.Dir = dir
	done := make(chan error, 1)
	if err := cmd.Start(); err != nil {
		return c12Obs{}, err
	}
	go func() { done <- cmd.Wait() }()
	var werr error
	select {
	case werr = <-done:
	case <-time.After(60 * time.Second):
		cmd.Process.Kill()
		<-done
		return c12Obs{}, fmt.Errorf("yq did not terminate within 60 s")
	}
	obs := c12Obs{Stdout: so.String(), Stderr: se.String()}
	if werr != nil {
		if ee, ok := werr.(*exec.ExitError); ok {
			if ws, ok := ee.Sys().(syscall.WaitStatus); ok && ws.Signaled() {
				obs.Killed = true
			}
			obs.Exit = ee.ExitCode()
		} else {
			return obs, werr
		}
	}
	b, rerr := os.ReadFile(target)
	if rerr != nil {
		obs.Bytes = "<unreadable: " + rerr.Error() + ">"
	} else {
		obs.Bytes = string(b)
	}
	if st, err := os.Stat(target); err == nil {
		obs.Mode = uint32(st.Mode().Perm())
	}
	if trace {
		if tb, err := os.ReadFile(tracePath); err == nil {
			obs.Steps = strings.Fields(string(tb))
		}
	}
	return obs, nil
}

type c12Ref struct {
	newBytes string
	newOK    bool
	steps    []string
}

func c12Reference(work string, cb c12Combo) (c12Ref, error) {
	ref, err := c12Exec(work, cb, "", false, false)
	if err != nil {
		return c12Ref{}, err
	}
	rec, err := c12Exec(work, cb, "", true, true)
	if err != nil {
		return c12Ref{}, err
	}
	return c12Ref{newBytes: ref.Stdout, newOK: ref.Exit == 0 && !ref.Killed, steps: rec.Steps}, nil
}

// c12Judge applies the all-or-nothing oracle to one observation.
func c12Judge(cb c12Combo, ref c12Ref, o c12Obs) (kind, detail string) {
	old := cb.Input
	show := func(s string) string {
		if len(s) > 120 {
			return fmt.Sprintf("%q… (%d bytes)", s[:120], len(s))
		}
		return fmt.Sprintf("%q", s)
	}
	switch {
	case o.Killed:
		if o.Bytes != old && !(ref.newOK && o.Bytes == ref.newBytes) {
			return "killed-partial", fmt.Sprintf("process killed: file holds neither the complete old nor the complete new content: %s", show(o.Bytes))
		}
	case o.Exit == 0:
		if !ref.newOK {
			if o.Bytes != old {
				return "exit0-but-command-fails-without-i", "exit 0 although the same command without -i fails; file changed to " + show(o.Bytes)
			}
			return "", ""
		}
		if o.Bytes != ref.newBytes {
			return "exit0-wrong-content", fmt.Sprintf("exit 0 but the file holds %s; without -i stdout is %s", show(o.Bytes), show(ref.newBytes))
		}
		if o.Mode != cb.Mode {
			return "exit0-mode-changed", fmt.Sprintf("permission bits %o became %o", cb.Mode, o.Mode)
		}
	default:
		if o.Bytes != old {
			return "exit-nonzero-file-modified", fmt.Sprintf("exit %d but the file was modified: %s", o.Exit, show(o.Bytes))
		}
		if strings.TrimSpace(o.Stderr) == "" {
			return "exit-nonzero-silent", fmt.Sprintf("exit %d without a message on stderr", o.Exit)
		}
	}
	if cb.Front && o.Bytes != old {
		// the text after the front matter is preserved byte for byte
		idx := strings.Index(old[3:], "\n---")
		tail := old[3+idx+1:]
		if !strings.HasSuffix(o.Bytes, tail) {
			return "front-matter-body-changed", "text after the front matter differs: " + show(o.Bytes)
		}
	}
	return "", ""
}

func c12Plans(steps []string, maxDev int, pairs bool) []string {
	acts := func(step string) []string {
		switch step {
		case "write":
			return []string{"err", "kill", "short", "killhalf"}
		case "copy.copy":
			return []string{"err", "kill", "short", "killhalf"}
		case "rename", "temp.remove", "temp.close", "fm.close", "copy.stage_rename":
			return []string{"kill"}
		}
		return []string{"err", "kill"}
	}
	var single []string
	type pa struct {
		k   int
		act string
	}
	var all []pa
	for i, s := range steps {
		for _, a := range acts(s) {
			single = append(single, fmt.Sprintf("%d:%s", i+1, a))
			all = append(all, pa{i + 1, a})
		}
	}
	// a kill point after the last step as well (process dies after everything is done)
	plans := append([]string{}, single...)
	if pairs && maxDev >= 2 {
		n := len(steps)
		for _, p1 := range all {
			if strings.HasPrefix(p1.act, "kill") {
				continue // nothing runs after a kill
			}
			for k2 := p1.k + 1; k2 <= n+4; k2++ {
				for _, a2 := range []string{"err", "kill", "short", "killhalf"} {
					plans = append(plans, fmt.Sprintf("%d:%s,%d:%s", p1.k, p1.act, k2, a2))
				}
			}
		}
	}
	return plans
}

func c12Run(c *fw.Ctx) error {
	if _, err := os.Stat(yqBin()); err != nil {
		return fmt.Errorf("bin/yq missing (./check builds it): %v", err)
	}
	work, err := os.MkdirTemp("", "mc-c12-")
	if err != nil {
		return err
	}
	defer os.RemoveAll(work)
	xdevOK := true
	if _, err := os.Stat("/dev/shm"); err != nil {
		xdevOK = false
		c.Note("/dev/shm not available: the cross-device configuration was skipped")
		c.Res.Exhaustive = false
	}
	if c.Shard == 0 {
		c12StraceCheck(c, work)
	}
	combos := c12Combos(c.Thorough())
	c.Res.Bound = fmt.Sprintf("%d (input, expression, configuration) combinations x every single fault at every reached step (error, short write/copy, SIGKILL before the step, SIGKILL after half a write); double faults on %s; 5 + 5 of the combinations run without faults in a directory that accepts no new entries (chattr +i), or new entries but no replacement (chattr +a), with the temp dir on another file system, where yq has to write the target itself", len(combos), map[bool]string{false: "the `ok` and `ok3` combinations", true: "every combination"}[c.Thorough()])
	var idx int64
	for ci, cb := range combos {
		if cb.XDev && !xdevOK {
			continue
		}
		if c.Expired() {
			break
		}
		// every worker needs the reference of the combos it touches; compute lazily
		var ref *c12Ref
		getRef := func() (*c12Ref, error) {
			if ref == nil {
				r, err := c12Reference(work, cb)
				if err != nil {
					return nil, err
				}
				ref = &r
			}
			return ref, nil
		}
		// cheap way to know the plan list without running: all workers record (2 runs per combo)
		r, err := getRef()
		if err != nil {
			if cb.ImmDir && strings.Contains(err.Error(), "chattr") {
				c.Note("chattr +i is not possible here: the immutable-directory configuration was skipped")
				continue
			}
			return err
		}
		pairs := c.Thorough() || cb.Name == "ok" || cb.Name == "ok3"
		plans := append([]string{""}, c12Plans(r.steps, 2, pairs && cb.Mode == 0o640 && !cb.EvalAll)...)
		if cb.ImmDir {
			plans = []string{""}
		}
		c.SetAdd("steps_seen", strings.Join(r.steps, " "))
		for _, plan := range plans {
			idx++
			if !c.Mine(idx) {
				continue
			}
			if c.Expired() {
				break
			}
			o, err := c12Exec(work, cb, plan, true, false)
			if err != nil {
				if strings.Contains(err.Error(), "did not terminate") {
					c.Violation("hang/"+cb.Name, int64(ci)*1e6+idx, c12Case{cb, plan}, err.Error())
					continue
				}
				return err
			}
			c.Eval(1)
			c.Validated(1)
			outcome := fmt.Sprintf("exit=%d killed=%v changed=%v", o.Exit, o.Killed, o.Bytes != cb.Input)
			c.Outcome(fmt.Sprintf("%s/%v/%s/%s", cb.Name, cb.XDev, plan, outcome))
			if plan != "" {
				c.Nontrivial(fmt.Sprintf("%d/%s", ci, plan))
			}
			kind, detail := c12Judge(cb, *r, o)
			if kind == "" {
				if idx%501 == 7 {
					c.Sample(map[string]interface{}{"combo": cb.Name, "xdev": cb.XDev, "args": cb.Args, "plan": plan, "steps": r.steps, "outcome": outcome})
				}
				continue
			}
			// signature: configuration class, the faulted steps and actions, the verdict.
			// A multi-fault plan is first reduced: if one of its faults alone gives the same verdict, that fault is the culprit.
			sigPlan := plan
			if items := strings.Split(plan, ","); len(items) > 1 {
				for _, it := range items {
					if o1, err := c12Exec(work, cb, it, true, false); err == nil {
						if k1, _ := c12Judge(cb, *r, o1); k1 == kind {
							sigPlan = it
							break
						}
					}
				}
			}
			var parts []string
			for _, item := range strings.Split(sigPlan, ",") {
				kv := strings.SplitN(item, ":", 2)
				if len(kv) == 2 {
					var k int
					fmt.Sscanf(kv[0], "%d", &k)
					name := "beyond-last-step"
					if k >= 1 && k <= len(r.steps) {
						name = r.steps[k-1]
					}
					parts = append(parts, name+":"+kv[1])
				}
			}
			fs := "samefs"
			if cb.XDev {
				fs = "xdev"
			}
			c.Count("mismatch_"+kind, 1)
			c.Violation(fs+"/"+strings.Join(parts, "+")+"/"+kind, int64(len(parts))*1e9+int64(ci)*1e6+idx%1e6, c12Case{cb, plan},
				fmt.Sprintf("yq %s -i target.yml (%s, mode %o, steps %v) with fault plan %q: %s", strings.Join(cb.Args, " "), fs, cb.Mode, r.steps, plan, detail))
		}
	}
	return nil
}

func c12Replay(raw json.RawMessage) (bool, string, error) {
	var cs c12Case
	if err := json.Unmarshal(raw, &cs); err != nil {
		return false, "", err
	}
	work, err := os.MkdirTemp("", "mc-c12-")
	if err != nil {
		return false, "", err
	}
	defer os.RemoveAll(work)
	if cs.Plan == "strace" {
		return true, "step-list completeness (strace) violations are re-derived by running ./check C12 quick", nil
	}
	ref, err := c12Reference(work, cs.Combo)
	if err != nil {
		return false, "", err
	}
	o, err := c12Exec(work, cs.Combo, cs.Plan, true, false)
	if err != nil {
		return strings.Contains(err.Error(), "did not terminate"), err.Error(), nil
	}
	kind, detail := c12Judge(cs.Combo, ref, o)
	return kind != "", fmt.Sprintf("YQ_VERIF_PLAN=%q yq %s -i <file> (xdev=%v): %s: %s", cs.Plan, strings.Join(cs.Combo.Args, " "), cs.Combo.XDev, kind, detail), nil
}

func init() {
	registerLater(func() {
		fw.Register(&fw.Check{
			ID: "C12", Level: "fault_enumeration",
			Rule: "real yq binary (built with -tags verif) run with -i on a scratch file; a recording run lists the file-system steps reached; every single fault at every reached step (and every pair on the successful combinations; thorough: on all) is injected through $YQ_VERIF_PLAN; " +
				"oracle: exit 0 => file == stdout of the same command without -i and mode unchanged; exit != 0 => file byte-identical and a message on stderr; SIGKILL => complete old or complete new; front matter body preserved; non-trivial = distinct (combination, non-empty fault plan)",
			Assumptions: []string{"crash = SIGKILL at step boundaries or after half a write (page cache survives); power-loss durability is outside the statement", "the step list is the hook list of DESIGN.md appendix B, re-checked on every run against strace: every creating/writing/renaming/chmod/chown/unlink/sync syscall on the target, temp or staging file must follow a marker of a step that allows it; a kill inside io.Copy is represented by the half-copy action"},
			Budget: func(t string) time.Duration {
				if t == "thorough" {
					return 30 * time.Minute
				}
				return 4 * time.Minute
			},
			Run: c12Run, Replay: c12Replay,
		})
	})
}
