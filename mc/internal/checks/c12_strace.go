package checks

import (
	"fmt"
	"os"
	"os/exec"
	"path/filepath"
	"regexp"
	"strings"

	"verif/mc/internal/fw"
)

// Completeness of C12's step alphabet is checked, not assumed: a recording run is repeated under strace with marker
// syscalls switched on (each reached step issues faccessat("/.verif/<step>")); every syscall that creates, writes,
// truncates, renames, chmods, chowns, unlinks or syncs the target, a temporary file or a staging file must directly follow
// a marker whose step allows exactly that kind of action. A file-system action without a step would escape fault injection.

var c12Allowed = map[string]string{
	"temp.create": "create", "fm.temp.create": "create", "temp.chmod": "chmod", "temp.chown": "chown", "write": "write", "rename": "rename", "temp.remove": "unlink",
	"copy.stage_create": "create", "copy.copy": "write", "copy.stage_sync": "sync", "copy.stage_chmod": "chmod,chown", "copy.stage_rename": "rename",
	"copy.create_dst": "create", "copy.sync": "sync", "fm.write": "write", "tmpdir.mkdir": "create",
}

var (
	c12ReMarker = regexp.MustCompile(`faccessat2?\(AT_FDCWD, "/\.verif/([^"]+)"`)
	c12ReOpen   = regexp.MustCompile(`openat\(AT_FDCWD, "([^"]+)", ([A-Z_|]+)[^)]*\)\s+= (\d+)`)
	c12ReFd     = regexp.MustCompile(`^(write|pwrite64|ftruncate|fsync|fchmod|fchown|close)\((\d+)`)
	c12RePath   = regexp.MustCompile(`^(renameat2?|rename|unlinkat|unlink|fchmodat|chmod|fchownat|chown|truncate)\((.*)`)
)

func c12StraceCheck(c *fw.Ctx, work string) {
	st, err := exec.LookPath("strace")
	if err != nil {
		c.Note("strace not available: completeness of the step list not re-checked in this run")
		return
	}
	checked := 0
	for _, cb := range c12Combos(false) {
		if !(cb.Name == "ok" || cb.Name == "front-matter" || cb.Name == "okbig") || cb.Mode != 0o640 || cb.EvalAll {
			continue
		}
		dir, _ := os.MkdirTemp(work, "st-")
		target := filepath.Join(dir, "target.yml")
		os.WriteFile(target, []byte(cb.Input), 0o640)
		tmp := filepath.Join(dir, "tmp")
		os.Mkdir(tmp, 0o700)
		if cb.XDev {
			if tmp, err = os.MkdirTemp("/dev/shm", "mc-c12st-"); err != nil {
				continue
			}
			defer os.RemoveAll(tmp)
		}
		out := filepath.Join(dir, "strace.out")
		args := []string{"-f", "-o", out, "-e", "trace=openat,rename,renameat,renameat2,unlink,unlinkat,chmod,fchmod,fchmodat,chown,fchown,fchownat,write,pwrite64,ftruncate,truncate,faccessat,faccessat2,fsync,close", yqBin()}
		args = append(args, cb.Args...)
		args = append(args, "-i", target)
		cmd := exec.Command(st, args...)
		cmd.Env = []string{"TMPDIR=" + tmp, "HOME=" + dir, "YQ_VERIF_MARK=1", "YQ_VERIF_TRACE=" + filepath.Join(dir, "steps.log"), "PATH=/usr/bin:/bin"}
		cmd.Dir = dir
		if err := cmd.Run(); err != nil {
			c.Note("strace run failed (" + err.Error() + "): completeness not re-checked")
			return
		}
		b, _ := os.ReadFile(out)
		interesting := func(p string) bool {
			return p == target || p == "target.yml" || strings.HasPrefix(p, tmp) || strings.Contains(p, ".yq-inplace-")
		}
		fds := map[string]string{} // fd -> path (interesting files only)
		lastMarker, budget := "", ""
		for _, line := range strings.Split(string(b), "\n") {
			if i := strings.Index(line, " "); i > 0 {
				line = strings.TrimSpace(line[i:]) // strip pid
			}
			if m := c12ReMarker.FindStringSubmatch(line); m != nil {
				lastMarker, budget = m[1], c12Allowed[m[1]]
				continue
			}
			class, what := "", ""
			if m := c12ReOpen.FindStringSubmatch(line); m != nil {
				if interesting(m[1]) {
					fds[m[3]] = m[1]
					if strings.Contains(m[2], "O_CREAT") || strings.Contains(m[2], "O_TRUNC") {
						class, what = "create", line
					}
				}
			} else if m := c12ReFd.FindStringSubmatch(line); m != nil {
				if p, ok := fds[m[2]]; ok {
					switch m[1] {
					case "write", "pwrite64":
						class = "write"
					case "ftruncate":
						class = "create"
					case "fsync":
						class = "sync"
					case "fchmod":
						class = "chmod"
					case "fchown":
						class = "chown"
					case "close":
						delete(fds, m[2])
					}
					what = line + "  (fd of " + p + ")"
				}
			} else if m := c12RePath.FindStringSubmatch(line); m != nil {
				hit := false
				for _, q := range regexp.MustCompile(`"([^"]*)"`).FindAllStringSubmatch(m[2], -1) {
					if interesting(q[1]) {
						hit = true
					}
				}
				if hit {
					switch {
					case strings.HasPrefix(m[1], "rename"):
						class = "rename"
					case strings.HasPrefix(m[1], "unlink"):
						class = "unlink"
					case strings.Contains(m[1], "chmod"):
						class = "chmod"
					case strings.Contains(m[1], "chown"):
						class = "chown"
					default:
						class = "create"
					}
					what = line
				}
			}
			if class == "" {
				continue
			}
			ok := false
			for _, a := range strings.Split(budget, ",") {
				if a == class {
					ok = true
				}
			}
			if !ok {
				c.Violation("unhooked-step/"+class+"/after="+lastMarker, 0, c12Case{cb, "strace"},
					fmt.Sprintf("yq %s -i: the %s action `%s` is not announced by a step marker that allows it (last marker: %q). A file-system action without a step escapes fault injection: add a verifStep before it.", strings.Join(cb.Args, " "), class, what, lastMarker))
				continue
			}
			if class != "write" {
				// one action per step (a chmod+chown pair shares the staging step)
				var rest []string
				for _, a := range strings.Split(budget, ",") {
					if a != class {
						rest = append(rest, a)
					}
				}
				budget = strings.Join(rest, ",")
			}
		}
		checked++
		os.RemoveAll(dir)
	}
	c.Res.Extra["strace_completeness_runs"] = checked
}
