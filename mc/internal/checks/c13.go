package checks

import (
	"bytes"
	"container/list"
	"encoding/json"
	"fmt"
	"sort"
	"strings"
	"time"

	"github.com/mikefarah/yq/v4/pkg/yqlib"

	"verif/mc/internal/fw"
	"verif/mc/internal/impl"
)

// C13 – aliases and merge keys read as the YAML specification resolves them.
// Exhaustive over a generator with ground truth: every placement of explicit keys before/after `<<`, every single alias and
// every ordered list of 1..3 aliases (one of which itself merges), aliases in value positions; three routes
// (traversal, explode + traversal, JSON) against the merge-key rules.

type c13Doc struct {
	Before []string `json:"before"` // explicit keys written before <<
	Merge  []string `json:"merge"`  // alias names; len 0 = no merge key; Single => written as a single alias
	Single bool     `json:"single"`
	After  []string `json:"after"`  // explicit keys written after <<
	Inline bool     `json:"inline"` // anchors defined inside the target document part (thorough)
	Style  int      `json:"style"`  // how explicit values are written: 0 plain scalar, 1 alias to a scalar, 2 map that itself merges *a
}

func (d c13Doc) explicitYAML(k string) string {
	switch d.Style {
	case 1:
		return "*v"
	case 2:
		return "{<<: *a, n: e" + k + "}"
	}
	return "e" + k
}

func (d c13Doc) explicitTruth(k string) string {
	switch d.Style {
	case 1:
		return `"vv"`
	case 2:
		return `{"x":"ax","y":"ay","n":"e` + k + `"}`
	}
	return `"e` + k + `"`
}

var c13Anchors = map[string][][2]string{ // name -> own (non-merged) entries
	"a": {{"x", "ax"}, {"y", "ay"}},
	"b": {{"y", "by"}, {"z", "bz"}},
	"c": {{"x", "cx"}}, // c additionally merges b
}

func (d c13Doc) yaml() string {
	var sb strings.Builder
	sb.WriteString("defs:\n  a: &a {x: ax, y: ay}\n  b: &b {y: by, z: bz}\n  c: &c\n    <<: *b\n    x: cx\n  s: &s [s0, s1]\n  v: &v vv\n")
	sb.WriteString("t:\n")
	for _, k := range d.Before {
		fmt.Fprintf(&sb, "  %s: %s\n", k, d.explicitYAML(k))
	}
	if len(d.Merge) > 0 {
		if d.Single {
			fmt.Fprintf(&sb, "  <<: *%s\n", d.Merge[0])
		} else {
			var l []string
			for _, m := range d.Merge {
				l = append(l, "*"+m)
			}
			fmt.Fprintf(&sb, "  <<: [%s]\n", strings.Join(l, ", "))
		}
	}
	for _, k := range d.After {
		fmt.Fprintf(&sb, "  %s: %s\n", k, d.explicitYAML(k))
	}
	sb.WriteString("  p: *v\n  q: *s\n  r: *a\n")
	return sb.String()
}

// resolveAnchor gives the flattened entries of an anchored map by the merge-key rules.
func c13ResolveAnchor(name string) map[string]string {
	out := map[string]string{}
	for _, kv := range c13Anchors[name] {
		out[kv[0]] = kv[1]
	}
	if name == "c" {
		for k, v := range c13ResolveAnchor("b") {
			if _, ok := out[k]; !ok {
				out[k] = v
			}
		}
	}
	return out
}

// truth: what each key of t must read as (strings; q and r are containers rendered as JSON).
func (d c13Doc) truth() map[string]string {
	out := map[string]string{}
	for _, k := range append(append([]string{}, d.Before...), d.After...) {
		out[k] = d.explicitTruth(k) // explicit keys win wherever they stand
	}
	for _, m := range d.Merge { // earlier entries of a merge list win
		for k, v := range c13ResolveAnchor(m) {
			if _, ok := out[k]; !ok {
				out[k] = `"` + v + `"`
			}
		}
	}
	out["p"] = `"vv"`
	out["q"] = `["s0","s1"]`
	out["r"] = `{"x":"ax","y":"ay"}`
	return out
}

// culprits: which of the two documented deviations (KNOWN_FINDINGS) can affect key k in this document.
func (d c13Doc) culprits(k string) []string {
	var c []string
	inMerge := 0
	for _, m := range d.Merge {
		if _, ok := c13ResolveAnchor(m)[k]; ok {
			inMerge++
		}
	}
	for _, b := range d.Before {
		if b == k && inMerge > 0 {
			c = append(c, "explicit-key-before-merge")
		}
	}
	explicit := false
	for _, e := range append(append([]string{}, d.Before...), d.After...) {
		if e == k {
			explicit = true
		}
	}
	if inMerge > 1 && !explicit {
		c = append(c, "overlapping-merge-list-entries")
	}
	return c
}

func c13Docs(thorough bool) []c13Doc {
	names := []string{"a", "b", "c"}
	var merges [][]string
	var perm func(cur []string, used []bool)
	perm = func(cur []string, used []bool) {
		if len(cur) > 0 {
			merges = append(merges, append([]string{}, cur...))
		}
		for i, n := range names {
			if !used[i] {
				used[i] = true
				perm(append(cur, n), used)
				used[i] = false
			}
		}
	}
	perm(nil, make([]bool, 3))
	keys := []string{"x", "y", "z", "w"}
	var docs []c13Doc
	// every assignment of each key to {absent, before, after}
	n := 1
	for range keys {
		n *= 3
	}
	for code := 0; code < n; code++ {
		var before, after []string
		c := code
		for _, k := range keys {
			switch c % 3 {
			case 1:
				before = append(before, k)
			case 2:
				after = append(after, k)
			}
			c /= 3
		}
		if len(before)+len(after) > 3 && !thorough {
			continue
		}
		if len(before) == 0 || true {
			if len(after) == 0 || true {
				// no merge key: positions collapse, keep one representative
				if len(after) == 0 {
					docs = append(docs, c13Doc{Before: before})
				}
			}
		}
		for _, m := range merges {
			for style := 0; style < 3; style++ {
				if style > 0 && len(before)+len(after) == 0 {
					continue
				}
				docs = append(docs, c13Doc{Before: before, Merge: m, After: after, Style: style})
				if len(m) == 1 {
					docs = append(docs, c13Doc{Before: before, Merge: m, Single: true, After: after, Style: style})
				}
			}
		}
	}
	return docs
}

type c13Case struct {
	Doc   c13Doc `json:"doc"`
	Route string `json:"route"`
	Key   string `json:"key"`
}

var c13Keys = []string{"x", "y", "z", "w", "p", "q", "r"}

func c13JSON(n *yqlib.CandidateNode) (string, error) {
	out, err, pan := impl.Print([]*yqlib.CandidateNode{n}, yqlib.NewJSONEncoder(impl.JSONPrefs()))
	if pan != nil {
		return "", fmt.Errorf("panic: %v", pan)
	}
	return strings.TrimSpace(out), err
}

// c13Observe returns what route reads for every key ("<absent>" when nothing), or an error string.
func c13Observe(d c13Doc, route string) (map[string]string, string) {
	docs, err, pan := impl.DecodeYAML(d.yaml())
	if err != nil || pan != nil || len(docs) != 1 {
		return nil, fmt.Sprintf("decode: %v %v", err, pan)
	}
	root := docs[0]
	obs := map[string]string{}
	switch route {
	case "traverse", "explode":
		if route == "explode" {
			res, err, pan := impl.Eval(c15Expr("explode(.)"), root)
			if err != nil || pan != nil || len(res) != 1 {
				return nil, fmt.Sprintf("explode(.): %v %v", err, pan)
			}
			root = res[0]
			// nothing may be left behind
			var walk func(n *yqlib.CandidateNode) string
			seen := map[*yqlib.CandidateNode]bool{}
			walk = func(n *yqlib.CandidateNode) string {
				if n == nil || seen[n] {
					return ""
				}
				seen[n] = true
				if n.Kind == yqlib.AliasNode {
					return "an alias node is left"
				}
				if n.Anchor != "" {
					return "anchor &" + n.Anchor + " is left"
				}
				if n.Kind == yqlib.MappingNode {
					for i := 0; i+1 < len(n.Content); i += 2 {
						if n.Content[i].Tag == "!!merge" || n.Content[i].Value == "<<" {
							return "a merge key is left"
						}
					}
				}
				for _, c := range n.Content {
					if m := walk(c); m != "" {
						return m
					}
				}
				return ""
			}
			if m := walk(root); m != "" {
				obs["#leftover"] = m
			}
			// every other value unchanged
			defsJSON, _ := c13ReadKey(root, ".defs")
			obs["#defs"] = defsJSON
		}
		for _, k := range c13Keys {
			v, e := c13ReadKey(root, ".t."+k)
			if e != "" {
				return nil, e
			}
			obs[k] = v
		}
		v, _ := c13ReadKey(root, ".t.q[1]")
		obs["q[1]"] = v
		v, _ = c13ReadKey(root, ".t.r.y")
		obs["r.y"] = v
	case "json-of-t", "explode-t":
		// the merging map alone: converted to JSON as it stands in the un-exploded document, or exploded on its own;
		// the anchored maps (which lie outside of it) keep their node graph
		defsNode, _, _ := impl.EvalRO(c15Expr(".defs"), root)
		before := ""
		if len(defsNode) == 1 {
			before = c13DownDump(defsNode[0])
		}
		var js string
		if route == "json-of-t" {
			tn, err, pan := impl.EvalRO(c15Expr(".t"), root)
			if err != nil || pan != nil || len(tn) != 1 {
				return nil, fmt.Sprintf(".t: %v %v", err, pan)
			}
			var jerr error
			if js, jerr = c13JSON(tn[0]); jerr != nil {
				return nil, "json: " + jerr.Error()
			}
		} else {
			res, err, pan := impl.Eval(c15Expr("explode(.t) | .t"), root)
			if err != nil || pan != nil || len(res) != 1 {
				return nil, fmt.Sprintf("explode(.t): %v %v", err, pan)
			}
			for _, c := range res[0].Content {
				if c.Tag == "!!merge" || c.Kind == yqlib.AliasNode {
					obs["#leftover"] = "a merge key or alias is left in .t after explode(.t)"
				}
			}
			var jerr error
			if js, jerr = c13JSON(res[0].Copy()); jerr != nil {
				return nil, "json: " + jerr.Error()
			}
		}
		if len(defsNode) == 1 {
			if after := c13DownDump(defsNode[0]); after != before {
				obs["#leftover"] = "the anchored maps under .defs changed:\n" + firstDiff(before, after)
			}
		}
		var t map[string]json.RawMessage
		if err := json.Unmarshal([]byte(js), &t); err != nil {
			return nil, "output is not valid JSON: " + js
		}
		for _, k := range c13Keys {
			if raw, ok := t[k]; ok {
				obs[k] = string(raw)
			} else {
				obs[k] = "<absent>"
			}
		}
		if _, ok := t["<<"]; ok {
			obs["#leftover"] = "a merge key is left in the JSON: " + js
		}
		obs["#defs"], _ = c13ReadKey(root, ".defs")
	case "json":
		js, err := c13JSON(root)
		if err != nil {
			return nil, "json: " + err.Error()
		}
		var parsed struct {
			T    map[string]json.RawMessage `json:"t"`
			Defs json.RawMessage            `json:"defs"`
		}
		if err := json.Unmarshal([]byte(js), &parsed); err != nil {
			return nil, "output is not valid JSON: " + js
		}
		for _, k := range c13Keys {
			if raw, ok := parsed.T[k]; ok {
				obs[k] = string(raw)
			} else {
				obs[k] = "<absent>"
			}
		}
		for k := range parsed.T {
			if k == "<<" {
				obs["#leftover"] = "a merge key is left in the JSON"
			}
		}
		obs["#defs"] = string(parsed.Defs)
	}
	return obs, ""
}

func c13ReadKey(root *yqlib.CandidateNode, path string) (string, string) {
	res, err, pan := impl.EvalRO(c15Expr(path), root)
	if pan != nil || err != nil {
		return "", fmt.Sprintf("%s: %v %v", path, err, pan)
	}
	if len(res) == 0 {
		return "<absent>", ""
	}
	if len(res) > 1 {
		var l []string
		for _, r := range res {
			j, _ := c13JSON(r)
			l = append(l, j)
		}
		return "<" + strings.Join(l, " AND ") + ">", ""
	}
	// explode a copy to read the value behind aliases
	j, e := c13JSON(res[0].Copy())
	if e != nil {
		return "", path + ": " + e.Error()
	}
	return j, ""
}

const c13DefsTruth = `{"a":{"x":"ax","y":"ay"},"b":{"y":"by","z":"bz"},"c":{"x":"cx","y":"by","z":"bz"},"s":["s0","s1"],"v":"vv"}`

func c13Mismatches(d c13Doc, route string) (out []struct{ key, sig, detail string }) {
	obs, bad := c13Observe(d, route)
	if bad != "" {
		return []struct{ key, sig, detail string }{{"*", route + "/error", bad}}
	}
	truth := d.truth()
	for _, k := range c13Keys {
		want, ok := truth[k]
		if !ok {
			want = "<absent>"
		}
		if obs[k] != want && !c13SameJSON(obs[k], want) {
			cul := d.culprits(k)
			sig := route + "/other"
			if len(cul) > 0 {
				sig = route + "/" + strings.Join(cul, "+")
			}
			out = append(out, struct{ key, sig, detail string }{k, sig, fmt.Sprintf("key %s reads %s, the merge-key rules give %s", k, obs[k], want)})
		}
	}
	if route == "traverse" || route == "explode" {
		if obs["q[1]"] != `"s1"` {
			out = append(out, struct{ key, sig, detail string }{"q[1]", route + "/alias-to-sequence", "t.q[1] reads " + obs["q[1]"]})
		}
		if obs["r.y"] != `"ay"` {
			out = append(out, struct{ key, sig, detail string }{"r.y", route + "/alias-to-map", "t.r.y reads " + obs["r.y"]})
		}
	}
	if m, ok := obs["#leftover"]; ok {
		out = append(out, struct{ key, sig, detail string }{"#", route + "/leftover", m})
	}
	if route != "traverse" {
		// c's own key order differs by route; compare as a set of entries
		if !c13SameJSON(obs["#defs"], c13DefsTruth) {
			out = append(out, struct{ key, sig, detail string }{"#defs", route + "/other-values-changed", "defs reads " + obs["#defs"]})
		}
	}
	return
}

func c13SameJSON(a, b string) bool {
	var x, y interface{}
	if json.Unmarshal([]byte(a), &x) != nil || json.Unmarshal([]byte(b), &y) != nil {
		return false
	}
	xa, _ := json.Marshal(x) // encoding/json sorts map keys
	ya, _ := json.Marshal(y)
	return string(xa) == string(ya)
}

// c13Hand: streams written by hand with the JSON each document means (an alias refers to the most recent definition of its name;
// merge keys as in truth()); judged on the json route and on the explode route (same value, nothing left behind).
var c13Hand = []struct {
	name, yaml string
	want       []string
}{
	{"name-redefined-in-one-document", "a: &x 1\nb: *x\nc: &x 2\nd: *x\ne: &x {p: 3}\nf: {<<: *x}\n", []string{`{"a":1,"b":1,"c":2,"d":2,"e":{"p":3},"f":{"p":3}}`}},
	{"name-redefined-in-later-documents", "a: &x 1\nb: *x\n---\na: &x 2\nb: *x\n---\nb: &x [3]\nc: *x\n", []string{`{"a":1,"b":1}`, `{"a":2,"b":2}`, `{"b":[3],"c":[3]}`}},
	{"merge-source-redefined-in-later-documents", "d: &m {p: 1}\nt: {<<: *m}\n---\nd: &m {p: 2}\nt: {<<: *m}\n---\nd: &m {p: 3, q: 4}\nt: {<<: *m, q: 5}\n",
		[]string{`{"d":{"p":1},"t":{"p":1}}`, `{"d":{"p":2},"t":{"p":2}}`, `{"d":{"p":3,"q":4},"t":{"p":3,"q":5}}`}},
	{"merged-value-holds-anchor-and-alias-used-again", "s: &s 1\nbase: &b {k: &qq {n: *s}}\nt:\n  <<: *b\nu: *qq\nv: [*b, *qq]\n",
		[]string{`{"s":1,"base":{"k":{"n":1}},"t":{"k":{"n":1}},"u":{"n":1},"v":[{"k":{"n":1}},{"n":1}]}`}},
	{"merge-list-whose-entries-hold-aliases", "s: &s [1]\na: &a {x: *s}\nb: &b {y: &in {z: *s}}\nt:\n  <<: [*a, *b]\n  w: *in\n",
		[]string{`{"s":[1],"a":{"x":[1]},"b":{"y":{"z":[1]}},"t":{"x":[1],"y":{"z":[1]},"w":{"z":[1]}}}`}},
	{"explicit-value-beside-a-merge-holds-alias-and-anchors", "base: &base {x: 1}\ns: &s [7, 8]\nc:\n  <<: *base\n  k: &kk {p: *s, q: &qq 5}\nd: *kk\ne: *qq\n",
		[]string{`{"base":{"x":1},"s":[7,8],"c":{"x":1,"k":{"p":[7,8],"q":5}},"d":{"p":[7,8],"q":5},"e":5}`}},
	{"merged-anchor-holds-overlapping-merge-list", "x: &x {p: 1, s: 1}\ny: &y {p: 2, r: 2}\nz: &z {<<: [*x, *y], q: 3}\nm: {<<: *z, k: 0}\nn: [*z]\n",
		[]string{`{"x":{"p":1,"s":1},"y":{"p":2,"r":2},"z":{"p":1,"s":1,"r":2,"q":3},"m":{"p":1,"s":1,"r":2,"q":3,"k":0},"n":[{"p":1,"s":1,"r":2,"q":3}]}`}},
	{"alias-to-a-collection-of-aliases", "a: &a {k: 1}\nn: &n 2\ns: &s [*a, *n]\nt: *s\nu: {ref: *s, w: [*s]}\n",
		[]string{`{"a":{"k":1},"n":2,"s":[{"k":1},2],"t":[{"k":1},2],"u":{"ref":[{"k":1},2],"w":[[{"k":1},2]]}}`}},
	{"alias-of-alias-chain", "a: &a {k: 1}\nb: &b {<<: *a, j: 2}\nc: &c {<<: *b, i: 3}\nd: {<<: *c}\ne: [*a, *b, *c]\n",
		[]string{`{"a":{"k":1},"b":{"k":1,"j":2},"c":{"k":1,"j":2,"i":3},"d":{"k":1,"j":2,"i":3},"e":[{"k":1},{"k":1,"j":2},{"k":1,"j":2,"i":3}]}`}},
}

// c13DownDump: what lies below a node (alias targets included), with every child's parent link checked.
func c13DownDump(root *yqlib.CandidateNode) string {
	var sb strings.Builder
	seen := map[*yqlib.CandidateNode]int{}
	var walk func(n *yqlib.CandidateNode, depth int)
	walk = func(n *yqlib.CandidateNode, depth int) {
		if id, ok := seen[n]; ok {
			fmt.Fprintf(&sb, "%s(node %d again)\n", strings.Repeat(" ", depth), id)
			return
		}
		seen[n] = len(seen)
		fmt.Fprintf(&sb, "%snode %d kind=%v tag=%s value=%q anchor=%q style=%v head=%q line=%q foot=%q\n", strings.Repeat(" ", depth), seen[n], n.Kind, n.Tag, n.Value, n.Anchor, n.Style, n.HeadComment, n.LineComment, n.FootComment)
		if n.Kind == yqlib.AliasNode && n.Alias != nil {
			fmt.Fprintf(&sb, "%s alias of:\n", strings.Repeat(" ", depth))
			walk(n.Alias, depth+2)
		}
		for i, c := range n.Content {
			if c.Parent != n {
				fmt.Fprintf(&sb, "%s child %d has another parent\n", strings.Repeat(" ", depth), i)
			}
			walk(c, depth+1)
		}
	}
	walk(root, 0)
	return sb.String()
}

func c13CheckHand(name, route string) (kind, detail string) {
	for _, h := range c13Hand {
		if h.name != name {
			continue
		}
		docs, err, pan := impl.DecodeYAML(h.yaml)
		if err != nil || pan != nil {
			return "rejected", fmt.Sprintf("decode: %v %v", err, pan)
		}
		if len(docs) != len(h.want) {
			return "document-count", fmt.Sprintf("%d documents decoded, %d written", len(docs), len(h.want))
		}
		if route == "json-part" {
			// each entry of the root converted to JSON on its own (what `yq -o=json .k` does): the printer explodes only that entry
			for i := range docs {
				fresh, _, _ := impl.DecodeYAML(h.yaml)
				r := fresh[i]
				if r.Kind != yqlib.MappingNode {
					continue
				}
				var want map[string]json.RawMessage
				if err := json.Unmarshal([]byte(h.want[i]), &want); err != nil {
					continue
				}
				for k := 0; k+1 < len(r.Content); k += 2 {
					fresh2, _, _ := impl.DecodeYAML(h.yaml)
					node := fresh2[i].Content[k+1]
					key := r.Content[k].Value
					js, jerr := c13JSON(node)
					if jerr != nil {
						return "json-error", fmt.Sprintf("document %d entry %q: %v", i, key, jerr)
					}
					if !c13SameJSON(js, string(want[key])) {
						return "value", fmt.Sprintf("document %d: entry %q converted on its own reads %s, means %s", i, key, js, want[key])
					}
				}
			}
			return "", ""
		}
		if route == "explode-part" {
			// explode applied to one entry of the root at a time: the entry reads as before and has nothing left in it,
			// and every other entry keeps its node graph (anchors and aliases included) - explode changes no other value
			for i, root := range docs {
				if root.Kind != yqlib.MappingNode {
					continue
				}
				for k := 0; k+1 < len(root.Content); k += 2 {
					fresh, _, _ := impl.DecodeYAML(h.yaml)
					r := fresh[i]
					before := map[int]string{}
					for j := 0; j+1 < len(r.Content); j += 2 {
						before[j] = c13DownDump(r.Content[j+1])
					}
					// (an entry that holds an anchor is left out: exploding it takes the anchor away from under its aliases elsewhere)
					anchored := false
					var scan func(n *yqlib.CandidateNode)
					scan = func(n *yqlib.CandidateNode) {
						if n.Anchor != "" {
							anchored = true
						}
						for _, c := range n.Content {
							scan(c)
						}
					}
					scan(r.Content[k+1])
					if anchored {
						continue
					}
					expr := fmt.Sprintf("explode(.[%q])", r.Content[k].Value)
					res, err, pan := impl.Eval(c15Expr(expr), r)
					if err != nil || pan != nil || len(res) != 1 {
						return "explode-error", fmt.Sprintf("%s: %v %v", expr, err, pan)
					}
					for j := 0; j+1 < len(r.Content); j += 2 {
						if j == k {
							continue
						}
						if after := c13DownDump(r.Content[j+1]); after != before[j] {
							return "other-entry-changed", fmt.Sprintf("document %d: %s changed the entry %q:\n%s", i, expr, r.Content[j].Value, firstDiff(before[j], after))
						}
					}
					js, jerr := c13JSON(r)
					if jerr != nil {
						return "json-error", jerr.Error()
					}
					if !c13SameJSON(js, h.want[i]) {
						return "value", fmt.Sprintf("document %d after %s reads %s, means %s", i, expr, js, h.want[i])
					}
				}
			}
			return "", ""
		}
		if route == "json-one-printer" {
			// the way the command line prints a stream: one printer, one PrintResults call per document
			var buf bytes.Buffer
			pr := yqlib.NewPrinter(yqlib.NewJSONEncoder(impl.JSONPrefs()), yqlib.NewSinglePrinterWriter(&buf))
			var perr error
			var ppan interface{}
			func() {
				defer func() {
					if r := recover(); r != nil {
						ppan = r
					}
				}()
				for i, root := range docs {
					root.SetDocument(uint(i))
					l := list.New()
					l.PushBack(root)
					if perr = pr.PrintResults(l); perr != nil {
						return
					}
				}
			}()
			if ppan != nil || perr != nil {
				return "json-error", fmt.Sprintf("%v %v", perr, ppan)
			}
			dec := json.NewDecoder(strings.NewReader(buf.String()))
			for i := range docs {
				var got interface{}
				if err := dec.Decode(&got); err != nil {
					return "value", fmt.Sprintf("document %d is missing from or not valid JSON in the output:\n%s", i, buf.String())
				}
				g, _ := json.Marshal(got)
				if !c13SameJSON(string(g), h.want[i]) {
					return "value", fmt.Sprintf("document %d reads %s, means %s", i, g, h.want[i])
				}
			}
			return "", ""
		}
		for i, root := range docs {
			if route == "explode" {
				res, err, pan := impl.Eval(c15Expr("explode(.)"), root)
				if err != nil || pan != nil || len(res) != 1 {
					return "explode-error", fmt.Sprintf("explode(.): %v %v", err, pan)
				}
				root = res[0]
				var walk func(n *yqlib.CandidateNode) string
				seen := map[*yqlib.CandidateNode]bool{}
				walk = func(n *yqlib.CandidateNode) string {
					if n == nil || seen[n] {
						return ""
					}
					seen[n] = true
					if n.Kind == yqlib.AliasNode {
						return "an alias node (*" + n.Value + ") is left"
					}
					if n.Anchor != "" {
						return "anchor &" + n.Anchor + " is left"
					}
					for _, c := range n.Content {
						if m := walk(c); m != "" {
							return m
						}
					}
					return ""
				}
				if m := walk(root); m != "" {
					return "leftover", fmt.Sprintf("document %d after explode(.): %s", i, m)
				}
			}
			js, jerr := c13JSON(root)
			if jerr != nil {
				return "json-error", jerr.Error()
			}
			if !c13SameJSON(js, h.want[i]) {
				return "value", fmt.Sprintf("document %d reads %s, means %s", i, js, h.want[i])
			}
		}
	}
	return "", ""
}

func c13Run(c *fw.Ctx) error {
	for hi, h := range c13Hand {
		if !c.Mine(int64(hi)) {
			continue
		}
		for _, route := range []string{"json", "explode", "explode-part", "json-part", "json-one-printer"} {
			kind, detail := c13CheckHand(h.name, route)
			c.Eval(1)
			c.Validated(1)
			c.Nontrivial("hand/" + h.name + "/" + route)
			if kind == "" {
				c.Outcome("hand/" + h.name + "/" + route)
				continue
			}
			c.Count("mismatch", 1)
			c.Violation(route+"/hand/"+kind+"/"+h.name, int64(hi), c13Case{Route: "hand:" + route, Key: h.name}, fmt.Sprintf("route %s on\n%s%s", route, h.yaml, detail))
		}
	}
	docs := c13Docs(c.Thorough())
	c.Res.Bound = fmt.Sprintf("%d documents: every placement of <= %d explicit keys of {x y z w} before/after `<<` x {no merge, single alias a|b|c, every ordered list of 1..3 of a b c (c itself merges b)} x 5 routes (traversal, explode(.), whole document to JSON, the merging map alone to JSON, explode of the merging map alone) x 9 read paths; 9 hand-written streams (anchor names redefined within and across documents, merged values that hold anchors and aliases used again, alias chains) x 5 routes (each document alone as JSON, each root entry alone as JSON, explode, explode of one root entry at a time with the other entries' node graphs compared, the whole stream through one JSON printer)", len(docs), map[bool]int{false: 3, true: 4}[c.Thorough()])
	for i, d := range docs {
		if !c.Mine(int64(i)) || c.Expired() {
			continue
		}
		for _, route := range []string{"traverse", "explode", "json", "json-of-t", "explode-t"} {
			mm := c13Mismatches(d, route)
			c.Eval(int64(len(c13Keys) + 2))
			c.Validated(int64(len(c13Keys) + 2))
			key := fmt.Sprintf("%s/%v", route, d)
			if len(d.Merge) > 0 {
				c.Nontrivial(key)
			}
			sort.Slice(mm, func(a, b int) bool { return mm[a].key < mm[b].key })
			c.Outcome(fmt.Sprintf("%s/%d", key, len(mm)))
			for _, m := range mm {
				c.Count("mismatch", 1)
				c.Violation(m.sig, int64(len(d.Before)+len(d.After)+len(d.Merge))*1000+int64(i), c13Case{d, route, m.key}, fmt.Sprintf("route %s on\n%s%s", route, d.yaml(), m.detail))
			}
			if i%97 == 11 && route == "traverse" {
				c.Sample(map[string]interface{}{"yaml": d.yaml(), "truth": d.truth()})
			}
		}
	}
	return nil
}

func c13Replay(raw json.RawMessage) (bool, string, error) {
	var cs c13Case
	if err := json.Unmarshal(raw, &cs); err != nil {
		return false, "", err
	}
	if strings.HasPrefix(cs.Route, "hand:") {
		kind, detail := c13CheckHand(cs.Key, strings.TrimPrefix(cs.Route, "hand:"))
		return kind != "", kind + ": " + detail, nil
	}
	for _, m := range c13Mismatches(cs.Doc, cs.Route) {
		if m.key == cs.Key {
			return true, fmt.Sprintf("route %s on\n%s%s", cs.Route, cs.Doc.yaml(), m.detail), nil
		}
	}
	return false, "", nil
}

func init() {
	registerLater(func() {
		fw.Register(&fw.Check{
			ID: "C13", Level: "model_checking",
			Rule: "generator with ground truth: target map with every placement of explicit keys before/after `<<`, `<<` as a single alias or every ordered list of 1..3 aliases (overlapping keys, one anchored map itself merging another), aliases to a scalar, a sequence and a map in value positions; " +
				"routes: traversal of the un-exploded document, explode(.) then traversal (plus: no alias, merge key or anchor left, other values unchanged), JSON encoding; oracle: the YAML merge-key rules computed from the generator's ground truth; non-trivial = document with a merge key",
			Assumptions: []string{"two deviations are documented behaviour of yq and pinned by its doc-generating tests (explicit key written before `<<` loses; later entries of a merge list win on traversal): recorded in KNOWN_FINDINGS with signatures that name route and culprit; any other disagreement is a violation"},
			Budget:      func(t string) time.Duration { return 10 * time.Minute },
			Run:         c13Run, Replay: c13Replay,
		})
	})
}
