package checks

import (
	"encoding/json"
	"fmt"
	"os"
	"os/exec"
	"path/filepath"
	"strconv"
	"strings"
	"time"
	"unicode/utf8"

	"github.com/mikefarah/yq/v4/pkg/yqlib"
	lua "github.com/yuin/gopher-lua"

	"verif/mc/internal/fw"
	"verif/mc/internal/impl"
	"verif/mc/internal/val"
)

// C14 – properties, CSV/TSV, XML, TOML, Lua, base64 and URI codecs are faithful.
// Per format: a domain generator with ground truth, the real encoder/decoder (and the in-expression operator pair), and an
// independent reader/writer that is never the library yq itself delegates to (own implementations in c14_indep.go,
// gopher-lua executing the text yq's own Lua encoder writes, python's xml.etree and tomllib in batch).

type c14Case struct {
	Format string   `json:"format"`
	Dir    string   `json:"direction"` // encode | decode | pair
	Data   string   `json:"data"`      // JSON of the value (or raw text for decode-only formats)
	Prefs  string   `json:"prefs,omitempty"`
	Extra  []string `json:"extra,omitempty"`
}

func strNode(s string) *yqlib.CandidateNode {
	return &yqlib.CandidateNode{Kind: yqlib.ScalarNode, Tag: "!!str", Value: s}
}

// vNode builds a node graph from a value (strings stay strings whatever they look like).
func vNode(v *val.V) *yqlib.CandidateNode {
	switch v.K {
	case val.Seq:
		n := &yqlib.CandidateNode{Kind: yqlib.SequenceNode, Tag: "!!seq"}
		for _, c := range v.Vals {
			n.AddChild(vNode(c))
		}
		return n
	case val.Map:
		n := &yqlib.CandidateNode{Kind: yqlib.MappingNode, Tag: "!!map"}
		for i, c := range v.Vals {
			n.AddKeyValueChild(vNode(v.Keys[i]), vNode(c))
		}
		return n
	case val.Null:
		return &yqlib.CandidateNode{Kind: yqlib.ScalarNode, Tag: "!!null", Value: "null"}
	case val.Bool:
		return &yqlib.CandidateNode{Kind: yqlib.ScalarNode, Tag: "!!bool", Value: v.S}
	case val.Int:
		return &yqlib.CandidateNode{Kind: yqlib.ScalarNode, Tag: "!!int", Value: v.S}
	case val.Float:
		return &yqlib.CandidateNode{Kind: yqlib.ScalarNode, Tag: "!!float", Value: v.S}
	}
	return strNode(v.S)
}

func c14Decode(dec yqlib.Decoder, text string) (n *yqlib.CandidateNode, err error, pan interface{}) {
	defer func() {
		if r := recover(); r != nil {
			pan = r
		}
	}()
	if err = dec.Init(strings.NewReader(text)); err != nil {
		return
	}
	n, err = dec.Decode()
	return
}

func c14EvalStr(expr string, in *yqlib.CandidateNode) (string, *yqlib.CandidateNode, error) {
	res, err, pan := impl.Eval(c15Expr(expr), in)
	if pan != nil {
		return "", nil, fmt.Errorf("panic: %v", pan)
	}
	if err != nil {
		return "", nil, err
	}
	if len(res) != 1 {
		return "", nil, fmt.Errorf("%d results", len(res))
	}
	return res[0].Value, res[0], nil
}

// flat text view of a decoded tree: scalars as text (types are not part of these formats' data model)
func textV(n *yqlib.CandidateNode) *val.V {
	v := impl.ToV(n)
	var conv func(x *val.V) *val.V
	conv = func(x *val.V) *val.V {
		if x.IsScalar() {
			s := x.S
			if x.K == val.Null {
				s = ""
			}
			return val.StrV(s)
		}
		o := &val.V{K: x.K}
		for i, c := range x.Vals {
			if x.K == val.Map {
				o.Keys = append(o.Keys, val.StrV(x.Keys[i].S))
			}
			o.Vals = append(o.Vals, conv(c))
		}
		return o
	}
	return conv(v)
}

func c14Strings(alphabet []string, maxLen int) []string {
	out := []string{""}
	frontier := []string{""}
	for l := 0; l < maxLen; l++ {
		var next []string
		for _, p := range frontier {
			for _, a := range alphabet {
				next = append(next, p+a)
			}
		}
		out = append(out, next...)
		frontier = next
	}
	return out
}

// ---------------------------------------------------------------------------------------------------------------

func c14Check(cs c14Case) (kind, detail string) {
	switch cs.Format {
	case "list":
		// one operator call decodes every element of a list (one decoder object, initialised once per element)
		var items []string
		json.Unmarshal([]byte(cs.Data), &items)
		doc := val.SeqV()
		for _, it := range items {
			doc.Vals = append(doc.Vals, val.StrV(it))
		}
		e := map[string]string{"base64": "[.[] | @base64 | @base64d]", "uri": "[.[] | @uri | @urid]", "json": "[.[] | to_json | from_json]", "yaml": "[.[] | to_yaml | from_yaml]", "base64-map": "map(@base64) | map(@base64d)"}[cs.Dir]
		parsed, perr, ppan := impl.Parse(e)
		if perr != nil || ppan != nil {
			return "skip", ""
		}
		res, err, pan := impl.Eval(parsed, impl.Doc(doc))
		if pan != nil {
			return "panic", fmt.Sprint(pan)
		}
		if err != nil {
			return "error", fmt.Sprintf("%s on %s: %v", e, doc.JSON(), err)
		}
		if len(res) != 1 || impl.ToV(res[0]).String() != doc.String() {
			got := "nothing"
			if len(res) > 0 {
				got = impl.ToV(res[0]).String()
			}
			return "value", fmt.Sprintf("%s on %s gives %s", e, doc.JSON(), got)
		}
		return "", ""
	case "base64":
		s := cs.Data
		enc, _, err := c14EvalStr("@base64", strNode(s))
		if err != nil {
			return "encode-error", err.Error()
		}
		if enc != ownBase64Encode([]byte(s)) {
			return "encode", fmt.Sprintf("@base64 of %q is %q, RFC 4648 gives %q", s, enc, ownBase64Encode([]byte(s)))
		}
		back, ok := ownBase64Decode(enc)
		if !ok || string(back) != s {
			return "encode", fmt.Sprintf("@base64 of %q = %q does not decode back (independent decoder)", s, enc)
		}
		dec, _, err := c14EvalStr("@base64d", strNode(ownBase64Encode([]byte(s))))
		if err != nil {
			if !utf8.ValidString(s) {
				return "", "" // yq may refuse bytes that are not text
			}
			return "decode-error", fmt.Sprintf("@base64d of %q: %v", ownBase64Encode([]byte(s)), err)
		}
		if dec != s {
			return "decode", fmt.Sprintf("@base64d of %q gives %q, expected %q", ownBase64Encode([]byte(s)), dec, s)
		}
		// unpadded input is accepted by yq as a convenience; if accepted it must mean the same
		if un := strings.TrimRight(ownBase64Encode([]byte(s)), "="); un != ownBase64Encode([]byte(s)) {
			if d2, _, err := c14EvalStr("@base64d", strNode(un)); err == nil && d2 != s {
				return "decode", fmt.Sprintf("@base64d of unpadded %q gives %q, expected %q", un, d2, s)
			}
		}
		rt, _, err := c14EvalStr("@base64 | @base64d", strNode(s))
		if err != nil || rt != s {
			return "pair", fmt.Sprintf("@base64 | @base64d of %q gives %q (%v)", s, rt, err)
		}
	case "uri":
		s := cs.Data
		enc, _, err := c14EvalStr("@uri", strNode(s))
		if err != nil {
			return "encode-error", err.Error()
		}
		if got, ok := ownFormDecode(enc); !ok || got != s {
			return "encode", fmt.Sprintf("@uri of %q is %q, which an independent decoder reads as %q", s, enc, got)
		}
		for _, r := range enc {
			if !(r >= 'a' && r <= 'z' || r >= 'A' && r <= 'Z' || r >= '0' && r <= '9' || strings.ContainsRune("-_.~%+", r)) {
				return "encode", fmt.Sprintf("@uri of %q = %q contains the unencoded character %q", s, enc, r)
			}
		}
		dec, _, err := c14EvalStr("@urid", strNode(ownPercentEncode(s)))
		if err != nil || dec != s {
			return "decode", fmt.Sprintf("@urid of %q gives %q (%v), expected %q", ownPercentEncode(s), dec, err, s)
		}
		rt, _, err := c14EvalStr("@uri | @urid", strNode(s))
		if err != nil || rt != s {
			return "pair", fmt.Sprintf("@uri | @urid of %q gives %q (%v)", s, rt, err)
		}
	case "props":
		var kv [][2]string
		json.Unmarshal([]byte(cs.Data), &kv)
		m := &val.V{K: val.Map}
		for _, e := range kv {
			m.Keys = append(m.Keys, val.StrV(e[0]))
			m.Vals = append(m.Vals, val.StrV(e[1]))
		}
		prefs := yqlib.NewDefaultPropertiesPreferences()
		if cs.Prefs == "colon" {
			prefs.KeyValueSeparator = ":"
		}
		switch cs.Dir {
		case "encode":
			out, err, pan := impl.Print([]*yqlib.CandidateNode{vNode(m)}, yqlib.NewPropertiesEncoder(prefs))
			if pan != nil || err != nil {
				return "encode-error", fmt.Sprintf("%v %v", err, pan)
			}
			got, perr := ownPropsParse(out)
			if perr != "" {
				return "encode", fmt.Sprintf("properties text %q written for %v is not well-formed: %s", out, kv, perr)
			}
			if fmt.Sprint(got) != fmt.Sprint(kv) {
				return "encode", fmt.Sprintf("%v is written as %q, which a .properties reader reads as %v", kv, out, got)
			}
		case "decode":
			text := ownPropsWrite(kv)
			n, err, pan := c14Decode(yqlib.NewPropertiesDecoder(), text)
			if pan != nil {
				return "panic", fmt.Sprint(pan)
			}
			if err != nil {
				return "decode-error", fmt.Sprintf("well-formed properties %q rejected: %v", text, err)
			}
			if got := textV(n).String(); got != m.String() {
				return "decode", fmt.Sprintf("properties %q (= %v) decode to %s", text, kv, got)
			}
		case "pair":
			root := vNode(val.MapV(val.StrV("v"), m))
			rt, node, err := c14EvalStr(".v | to_props | from_props", root)
			_ = rt
			if err != nil {
				return "pair", fmt.Sprintf("to_props | from_props of %v: %v", kv, err)
			}
			if got := textV(node).String(); got != m.String() {
				return "pair", fmt.Sprintf("to_props | from_props of %v gives %s", kv, got)
			}
		}
	case "csv", "tsv":
		var rows [][]string
		json.Unmarshal([]byte(cs.Data), &rows)
		sep := ','
		prefs := yqlib.NewDefaultCsvPreferences()
		if cs.Format == "tsv" {
			sep = '\t'
			prefs = yqlib.NewDefaultTsvPreferences()
		}
		if cs.Prefs == "semicolon" {
			sep = ';'
			prefs.Separator = ';'
		}
		switch cs.Dir {
		case "encode":
			// array of scalar rows
			doc := &val.V{K: val.Seq}
			for _, r := range rows {
				row := &val.V{K: val.Seq}
				for _, f := range r {
					row.Vals = append(row.Vals, val.StrV(f))
				}
				doc.Vals = append(doc.Vals, row)
			}
			out, err, pan := impl.Print([]*yqlib.CandidateNode{vNode(doc)}, yqlib.NewCsvEncoder(prefs))
			if pan != nil || err != nil {
				return "encode-error", fmt.Sprintf("%v %v", err, pan)
			}
			got, perr := ownCSVParse(out, sep)
			if perr != "" {
				return "encode", fmt.Sprintf("%v is written as %q which is not well-formed: %s", rows, out, perr)
			}
			if fmt.Sprintf("%q", got) != fmt.Sprintf("%q", rows) {
				return "encode", fmt.Sprintf("%q is written as %q, which an RFC 4180 reader reads as %q", rows, out, got)
			}
		case "encode-objects":
			// array of flat objects: header from the first row
			if len(rows) < 2 {
				return "skip", ""
			}
			doc := &val.V{K: val.Seq}
			for _, r := range rows[1:] {
				obj := &val.V{K: val.Map}
				for i, f := range r {
					obj.Keys = append(obj.Keys, val.StrV(rows[0][i]))
					obj.Vals = append(obj.Vals, val.StrV(f))
				}
				doc.Vals = append(doc.Vals, obj)
			}
			out, err, pan := impl.Print([]*yqlib.CandidateNode{vNode(doc)}, yqlib.NewCsvEncoder(prefs))
			if pan != nil || err != nil {
				return "encode-error", fmt.Sprintf("%v %v", err, pan)
			}
			got, perr := ownCSVParse(out, sep)
			if perr != "" || fmt.Sprintf("%q", got) != fmt.Sprintf("%q", rows) {
				return "encode", fmt.Sprintf("objects %q are written as %q, read back as %q %s", rows, out, got, perr)
			}
		case "encode-objects-permuted":
			// the later objects list their keys in another order (Prefs: the order, as column numbers): a column is found by its name
			doc := &val.V{K: val.Seq}
			for ri, r := range rows[1:] {
				obj := &val.V{K: val.Map}
				order := make([]int, len(r))
				for i := range order {
					order[i] = i
				}
				if ri > 0 {
					for i, t := range strings.Split(cs.Prefs, ",") {
						order[i], _ = strconv.Atoi(t)
					}
				}
				for _, i := range order {
					obj.Keys = append(obj.Keys, val.StrV(rows[0][i]))
					obj.Vals = append(obj.Vals, val.StrV(r[i]))
				}
				doc.Vals = append(doc.Vals, obj)
			}
			p2 := yqlib.NewDefaultCsvPreferences()
			if cs.Format == "tsv" {
				p2 = yqlib.NewDefaultTsvPreferences()
			}
			out, err, pan := impl.Print([]*yqlib.CandidateNode{vNode(doc)}, yqlib.NewCsvEncoder(p2))
			if pan != nil || err != nil {
				return "encode-error", fmt.Sprintf("%v %v", err, pan)
			}
			got, perr := ownCSVParse(out, sep)
			if perr != "" || fmt.Sprintf("%q", got) != fmt.Sprintf("%q", rows) {
				return "encode", fmt.Sprintf("objects with the columns %q, the later ones listing their keys in the order %s, are written as %q, read back as %q %s", rows, cs.Prefs, out, got, perr)
			}
		case "decode":
			if len(rows) < 2 {
				return "skip", ""
			}
			text := ownCSVWrite(rows, sep)
			n, err, pan := c14Decode(yqlib.NewCSVObjectDecoder(prefs), text)
			if pan != nil {
				return "panic", fmt.Sprint(pan)
			}
			if err != nil {
				return "decode-error", fmt.Sprintf("well-formed text %q rejected: %v", text, err)
			}
			want := &val.V{K: val.Seq}
			for _, r := range rows[1:] {
				obj := &val.V{K: val.Map}
				for i, f := range r {
					obj.Keys = append(obj.Keys, val.StrV(rows[0][i]))
					obj.Vals = append(obj.Vals, val.StrV(f))
				}
				want.Vals = append(want.Vals, obj)
			}
			if got := textV(n).String(); got != want.String() {
				return "decode", fmt.Sprintf("text %q (= %q) decodes to %s", text, rows, got)
			}
		}
	case "lua":
		v := fromJSONText(cs.Data)
		prefs := yqlib.NewDefaultLuaPreferences()
		if cs.Prefs == "unquoted" {
			prefs.UnquotedKeys = true
		}
		switch cs.Dir {
		case "encode":
			out, err, pan := impl.Print([]*yqlib.CandidateNode{vNode(v)}, yqlib.NewLuaEncoder(prefs))
			if pan != nil || err != nil {
				return "encode-error", fmt.Sprintf("%v %v", err, pan)
			}
			got, lerr := luaRun(out)
			if lerr != "" {
				return "encode", fmt.Sprintf("%s is written as %q which Lua rejects: %s", cs.Data, out, lerr)
			}
			if got.String() != c14LuaNormal(v).String() {
				return "encode", fmt.Sprintf("%s is written as %q which Lua evaluates to %s", cs.Data, out, got.String())
			}
		case "decode":
			text := "return " + ownLuaWrite(v) + "\n"
			n, err, pan := c14Decode(yqlib.NewLuaDecoder(prefs), text)
			if pan != nil {
				return "panic", fmt.Sprint(pan)
			}
			if err != nil {
				return "decode-error", fmt.Sprintf("Lua text %q rejected: %v", text, err)
			}
			if got := c14LuaNormal(impl.ToV(n)).String(); got != c14LuaNormal(v).String() {
				return "decode", fmt.Sprintf("Lua text %q decodes to %s, expected %s", text, got, c14LuaNormal(v).String())
			}
		}
	case "json-pair", "yaml-pair":
		v := fromJSONText(cs.Data)
		expr := ".v | to_json | from_json"
		if cs.Format == "yaml-pair" {
			expr = ".v | to_yaml | from_yaml"
		}
		_, node, err := c14EvalStr(expr, vNode(val.MapV(val.StrV("v"), v)))
		if err != nil {
			return "pair", fmt.Sprintf("%s of %s: %v", expr, cs.Data, err)
		}
		if got := impl.ToV(node).String(); got != v.String() {
			return "pair", fmt.Sprintf("%s of %s gives %s", expr, cs.Data, got)
		}
	}
	return "", ""
}

// Lua has no null inside tables and no distinction int/float beyond value: normalise both sides the same way.
func c14LuaNormal(v *val.V) *val.V {
	switch v.K {
	case val.Int, val.Float:
		f, _ := v.NumVal()
		return val.FloatV(f)
	case val.Seq, val.Map:
		o := &val.V{K: v.K}
		if v.K == val.Map && len(v.Vals) == 0 {
			o.K = val.Seq // an empty table is an empty table
		}
		for i, c := range v.Vals {
			if v.K == val.Map {
				o.Keys = append(o.Keys, val.StrV(v.Keys[i].S))
			}
			o.Vals = append(o.Vals, c14LuaNormal(c))
		}
		if o.K == val.Map {
			// key order is not part of a Lua table: sort
			for i := range o.Keys {
				for j := i + 1; j < len(o.Keys); j++ {
					if o.Keys[j].S < o.Keys[i].S {
						o.Keys[i], o.Keys[j] = o.Keys[j], o.Keys[i]
						o.Vals[i], o.Vals[j] = o.Vals[j], o.Vals[i]
					}
				}
			}
		}
		return o
	}
	return v
}

// luaRun executes a chunk with gopher-lua and converts the returned value.
func luaRun(chunk string) (*val.V, string) {
	L := lua.NewState(lua.Options{SkipOpenLibs: true})
	defer L.Close()
	if err := L.DoString(chunk); err != nil {
		return nil, err.Error()
	}
	if L.GetTop() < 1 {
		return nil, "chunk returns nothing"
	}
	return luaToV(L.Get(1), 0), ""
}

func luaToV(lv lua.LValue, depth int) *val.V {
	if depth > 20 {
		return val.StrV("<deep>")
	}
	switch x := lv.(type) {
	case *lua.LNilType:
		return val.NullV()
	case lua.LBool:
		return val.BoolV(bool(x))
	case lua.LNumber:
		return val.FloatV(float64(x))
	case lua.LString:
		return val.StrV(string(x))
	case *lua.LTable:
		n := x.Len()
		isSeq := true
		count := 0
		x.ForEach(func(k, _ lua.LValue) {
			count++
			if _, ok := k.(lua.LNumber); !ok {
				isSeq = false
			}
		})
		if isSeq && count == n {
			o := &val.V{K: val.Seq}
			for i := 1; i <= n; i++ {
				o.Vals = append(o.Vals, luaToV(x.RawGetInt(i), depth+1))
			}
			return o
		}
		o := &val.V{K: val.Map}
		x.ForEach(func(k, v lua.LValue) {
			o.Keys = append(o.Keys, val.StrV(k.String()))
			o.Vals = append(o.Vals, luaToV(v, depth+1))
		})
		return c14LuaNormal(o)
	}
	return val.StrV("<" + lv.Type().String() + ">")
}

// ---------------------------------------------------------------------------------------------------------------

func c14Run(c *fw.Ctx) error {
	var idx int64
	run := func(cs c14Case, order int64, class string) {
		idx++
		if !c.Mine(idx) || c.Expired() {
			return
		}
		kind, detail := c14Check(cs)
		if kind == "skip" {
			return
		}
		c.Eval(1)
		c.Validated(1)
		b, _ := json.Marshal(cs)
		c.Nontrivial(string(b))
		if kind == "" {
			c.Outcome(string(b))
			if idx%20011 == 5 {
				c.Sample(cs)
			}
			return
		}
		c.Count("mismatch_"+cs.Format, 1)
		if cs.Format == "props" {
			class = c14PropsCulprit(cs)
		}
		c.Violation(cs.Format+"/"+cs.Dir+"/"+kind+"/"+class, order, cs, detail)
	}
	// base64 / uri: every byte string of length <= 2, length 3 over a 24-byte alphabet
	var byteStrings []string
	byteStrings = append(byteStrings, "")
	for a := 0; a < 256; a++ {
		byteStrings = append(byteStrings, string([]byte{byte(a)}))
	}
	for a := 0; a < 256; a++ {
		for b := 0; b < 256; b++ {
			if !c.Thorough() && b%3 != a%3 {
				continue
			}
			byteStrings = append(byteStrings, string([]byte{byte(a), byte(b)}))
		}
	}
	core := []byte{0, 1, ' ', '+', '/', '=', '%', '&', '?', '#', '-', '_', '.', '~', 'a', 'Z', '9', 0x7f, 0x80, 0xc3, 0xa9, 0xff, '\n', '"'}
	for _, a := range core {
		for _, b := range core {
			for _, d := range core {
				byteStrings = append(byteStrings, string([]byte{a, b, d}))
			}
		}
	}
	for i, s := range byteStrings {
		run(c14Case{Format: "base64", Dir: "all", Data: s}, int64(len(s))*1e6+int64(i), c14ByteClass(s))
		if utf8.ValidString(s) && !strings.Contains(s, "\x00") {
			run(c14Case{Format: "uri", Dir: "all", Data: s}, int64(len(s))*1e6+int64(i), c14ByteClass(s))
		}
	}
	// the decode operators over lists (pairs and triples from a pool that includes the empty string)
	lpool := []string{"", "a", "ab", "abc", "a b", "é"}
	for _, x := range lpool {
		for _, y := range lpool {
			for zi := -1; zi < len(lpool); zi++ {
				l := []string{x, y}
				if zi >= 0 {
					l = append(l, lpool[zi])
				}
				b, _ := json.Marshal(l)
				for _, op := range []string{"base64", "uri", "json", "yaml", "base64-map"} {
					if op == "yaml" && (x == "" || y == "" || (zi >= 0 && lpool[zi] == "")) {
						continue // `"" | to_yaml | from_yaml` is a listed finding of its own (root scalars are printed unwrapped)
					}
					run(c14Case{Format: "list", Dir: op, Data: string(b)}, 2e6+int64(len(l)), "list-with-empty:"+fmt.Sprint(x == "" || y == "" || (zi >= 0 && lpool[zi] == "")))
				}
			}
		}
	}
	if c.Thorough() {
		// every 3-byte string: the whole input space of one base64 block (generated on the fly, 2^24 cases)
		for a := 0; a < 256; a++ {
			for b := 0; b < 256; b++ {
				for d := 0; d < 256; d++ {
					s := string([]byte{byte(a), byte(b), byte(d)})
					run(c14Case{Format: "base64", Dir: "all", Data: s}, 3e6+int64(a<<16|b<<8|d), c14ByteClass(s))
					if utf8.ValidString(s) && a != 0 && b != 0 && d != 0 {
						run(c14Case{Format: "uri", Dir: "all", Data: s}, 3e6+int64(a<<16|b<<8|d), c14ByteClass(s))
					}
				}
			}
		}
	}
	// properties
	pal := []string{"a", "1", " ", "=", ":", "#", "!", "\\", "\t", "\n", "é", "€", "b"}
	pstr := c14Strings(pal, 2)
	var pkeys []string
	for _, k := range pstr {
		if k == "" || strings.Contains(k, ".") {
			continue
		}
		if strings.Trim(k, "0123456789") == "" {
			continue // a purely numeric path element is an array index by design
		}
		pkeys = append(pkeys, k)
	}
	for ki, k := range pkeys {
		for vi, v := range pstr {
			if !c.Thorough() && len(k) == 2 && len(v) == 2 && (ki+vi)%5 != 0 {
				continue
			}
			kv := [][2]string{{k, v}}
			b, _ := json.Marshal(kv)
			for _, dir := range []string{"encode", "decode", "pair"} {
				run(c14Case{Format: "props", Dir: dir, Data: string(b)}, int64(len(k)+len(v))*1e6, "key:"+c14CharClass(k)+"/value:"+c14CharClass(v))
			}
			if len(k)+len(v) <= 2 {
				run(c14Case{Format: "props", Dir: "encode", Data: string(b), Prefs: "colon"}, int64(len(k)+len(v))*1e6, "key:"+c14CharClass(k)+"/value:"+c14CharClass(v))
				kv3 := [][2]string{{"first", "x"}, {k, v}, {"last", "y z"}}
				b3, _ := json.Marshal(kv3)
				for _, dir := range []string{"encode", "decode"} {
					run(c14Case{Format: "props", Dir: dir, Data: string(b3)}, int64(len(k)+len(v))*1e6+1, "key:"+c14CharClass(k)+"/value:"+c14CharClass(v))
				}
			}
		}
	}
	// csv / tsv
	cal := []string{"a", "1", ",", "\t", "\"", "\n", "\r", " ", ";", "é"}
	cf := c14Strings(cal, 2)
	for fi, f := range cf {
		if t := strings.TrimSpace(f); t != f && t != "" && strings.Trim(t, "0123456789") == "" {
			continue // a field that is a number once trimmed is typed by design (auto-parse): outside the domain
		}
		for _, shape := range [][][]string{{{"h"}, {f}}, {{"h1", "h2"}, {f, "x"}, {"y", f}}, {{"h1", "h2", "h3"}, {"p", f, "q"}}, {{f, "h2"}, {"v", "w"}}} {
			b, _ := json.Marshal(shape)
			for _, fm := range []string{"csv", "tsv"} {
				for _, dir := range []string{"encode", "encode-objects", "decode"} {
					if dir != "encode" && (strings.TrimSpace(shape[0][0]) == "" || shape[0][0] != strings.TrimSpace(shape[0][0])) {
						continue
					}
					run(c14Case{Format: fm, Dir: dir, Data: string(b)}, int64(len(f))*1e6+int64(fi), "field:"+c14CharClass(f))
				}
			}
			run(c14Case{Format: "csv", Dir: "encode", Data: string(b), Prefs: "semicolon"}, int64(len(f))*1e6+int64(fi), "field:"+c14CharClass(f))
			run(c14Case{Format: "csv", Dir: "decode", Data: string(b), Prefs: "semicolon"}, int64(len(f))*1e6+int64(fi), "field:"+c14CharClass(f))
		}
	}
	// objects whose keys come in another order than the first one's: every permutation of 3 and of 4 columns
	var perms func(n int) [][]int
	perms = func(n int) [][]int {
		if n == 0 {
			return [][]int{{}}
		}
		var out [][]int
		for _, p := range perms(n - 1) {
			for i := 0; i <= len(p); i++ {
				q := append(append(append([]int{}, p[:i]...), n-1), p[i:]...)
				out = append(out, q)
			}
		}
		return out
	}
	for _, n := range []int{2, 3, 4} {
		header, r1, r2, r3 := []string{}, []string{}, []string{}, []string{}
		for i := 0; i < n; i++ {
			header, r1, r2, r3 = append(header, fmt.Sprintf("h%d", i)), append(r1, fmt.Sprintf("a%d", i)), append(r2, fmt.Sprintf("b%d", i)), append(r3, fmt.Sprintf("c%d", i))
		}
		b, _ := json.Marshal([][]string{header, r1, r2, r3})
		for pi, p := range perms(n) {
			var ps []string
			for _, i := range p {
				ps = append(ps, strconv.Itoa(i))
			}
			for _, fm := range []string{"csv", "tsv"} {
				run(c14Case{Format: fm, Dir: "encode-objects-permuted", Data: string(b), Prefs: strings.Join(ps, ",")}, int64(n)*1e6+int64(pi), "key-order")
			}
		}
	}
	// lua
	lal := []string{"a", "\"", "'", "\\", "\n", "]]", "\x7f", "é", "\r", "\x01", "1", "\t", "\x00z"}
	lstr := c14Strings(lal, 2)
	lkeys := []string{"a", "and", "end", "nil", "1a", "a-b", "_x", "a b", "", "é", "return", "\""}
	for si, s := range lstr {
		for _, prefs := range []string{"", "unquoted"} {
			shapes := []*val.V{val.StrV(s), val.SeqV(val.StrV(s), val.IntV(1)), val.MapV(val.StrV("k"), val.StrV(s))}
			for _, sh := range shapes {
				for _, dir := range []string{"encode", "decode"} {
					run(c14Case{Format: "lua", Dir: dir, Data: sh.JSON(), Prefs: prefs}, int64(len(s))*1e6+int64(si), "string:"+c14CharClass(s))
				}
			}
		}
	}
	for ki, k := range lkeys {
		for _, prefs := range []string{"", "unquoted"} {
			sh := val.MapV(val.StrV(k), val.IntV(1), val.StrV("z"), val.MapV(val.StrV(k), val.StrV("v")))
			for _, dir := range []string{"encode", "decode"} {
				run(c14Case{Format: "lua", Dir: dir, Data: sh.JSON(), Prefs: prefs}, int64(ki), "key:"+k)
			}
		}
	}
	for _, d := range val.Universe(3, val.SigmaPlus(), []string{"a", "b"}) {
		hasNull := strings.Contains(d.JSON(), "null")
		if hasNull && d.K != val.Null {
			continue // nil inside a Lua table is not representable
		}
		for _, dir := range []string{"encode", "decode"} {
			run(c14Case{Format: "lua", Dir: dir, Data: d.JSON()}, int64(d.Size())*1e6, "shape")
		}
		run(c14Case{Format: "json-pair", Dir: "pair", Data: d.JSON()}, int64(d.Size()), "shape")
		run(c14Case{Format: "yaml-pair", Dir: "pair", Data: d.JSON()}, int64(d.Size()), "shape")
	}
	// XML and TOML: generators here, independent readers in python (batch), shard 0 drives them
	if c.Shard == 0 {
		if err := c14Batch(c); err != nil {
			return err
		}
	}
	c.Res.Bound = "base64/uri: every byte string of length <= 2 (quick: one third of the pairs) and length 3 over a 24-byte core (thorough: every 3-byte string, 2^24); the decode operators over every pair and triple of a 6-string pool incl. the empty string in one call; xml also with two non-default attribute-prefix/content-name settings; properties: keys x values over all strings of length <= 2 over 13 characters (separators, comment signs, backslash, blanks, line feed, non-ASCII), 3 directions; csv/tsv: fields of length <= 2 over 10 characters in 4 table shapes, 3 separators, objects listing their keys in every order of 2, 3 and 4 columns; lua: strings of length <= 2 over 13 atoms, 12 hazardous keys, U(3), quoted and unquoted keys; xml: element trees with attributes/text/repeated children over hazardous text, 16 element names (HTML's void names among them) x the decoder's 8 switch settings; toml: mini-grammar documents; to_json/from_json and to_yaml/from_yaml on U(3)"
	return nil
}

// c14PropsCulprit reduces a failing properties case to the smallest key or value that fails on its own.
func c14PropsCulprit(cs c14Case) string {
	var kv [][2]string
	json.Unmarshal([]byte(cs.Data), &kv)
	var k, v string
	for _, e := range kv {
		if e[0] != "first" && e[0] != "last" {
			k, v = e[0], e[1]
		}
	}
	fails := func(k2, v2 string) bool {
		b, _ := json.Marshal([][2]string{{k2, v2}})
		kind, _ := c14Check(c14Case{Format: "props", Dir: cs.Dir, Data: string(b), Prefs: cs.Prefs})
		return kind != "" && kind != "skip"
	}
	subs := func(s string) []string {
		var out []string
		rs := []rune(s)
		for l := 1; l <= len(rs); l++ {
			for i := 0; i+l <= len(rs); i++ {
				out = append(out, string(rs[i:i+l]))
			}
		}
		return out
	}
	for _, sk := range subs(k) {
		if strings.Trim(sk, "0123456789") != "" && fails(sk, "v") {
			return "key=" + fmt.Sprintf("%q", sk)
		}
	}
	if fails("k", "") && v == "" {
		return "value=empty"
	}
	for _, sv := range subs(v) {
		if fails("k", sv) {
			return "value=" + fmt.Sprintf("%q", sv)
		}
	}
	return "key:" + c14CharClass(k) + "/value:" + c14CharClass(v)
}

func c14CharClass(s string) string {
	if s == "" {
		return "empty"
	}
	set := map[string]bool{}
	for i, r := range s {
		name := string(r)
		switch {
		case r == ' ':
			name = "space"
			if i == 0 {
				name = "leading-space"
			}
		case r == '\n':
			name = "LF"
		case r == '\r':
			name = "CR"
		case r == '\t':
			name = "TAB"
		case r < 0x20 || r == 0x7f:
			name = fmt.Sprintf("ctl%02x", r)
		case r >= 'a' && r <= 'z' || r >= '0' && r <= '9':
			continue
		case r > 0x7f:
			name = "nonascii"
		}
		set[name] = true
	}
	var l []string
	for k := range set {
		l = append(l, k)
	}
	for i := range l {
		for j := i + 1; j < len(l); j++ {
			if l[j] < l[i] {
				l[i], l[j] = l[j], l[i]
			}
		}
	}
	if len(l) == 0 {
		return "plain"
	}
	return strings.Join(l, "+")
}

func c14ByteClass(s string) string {
	if !utf8.ValidString(s) {
		return "invalid-utf8"
	}
	if strings.Contains(s, "\x00") {
		return "nul"
	}
	return "text"
}

// c14Batch: XML and TOML cases judged by python's xml.etree / tomllib.
func c14Batch(c *fw.Ctx) error {
	py, err := exec.LookPath("python3")
	if err != nil {
		c.Note("python3 not found: XML/TOML independent readers skipped")
		c.Res.Exhaustive = false
		return nil
	}
	work, err := os.MkdirTemp("", "mc-c14-")
	if err != nil {
		return err
	}
	defer os.RemoveAll(work)
	type item struct {
		Kind string `json:"kind"`
		Text string `json:"text"`
		Want string `json:"want"` // JSON
		ID   int    `json:"id"`
		Src  string `json:"src"`
	}
	var items []item
	// XML encode: element trees -> yq document -> XML text (yq) -> python reads it back -> canonical JSON compare
	texts := []string{"t", "a b", "<", "&", "\"", "'", ">", "é", "]]>", "a<b&c", "1", "&amp;", "<!--", "x\ny"}
	id := 0
	// preference variants: the default names, yq's former defaults (the content name starts with the attribute prefix), one more
	prefVariants := [][2]string{{"+@", "+content"}, {"+", "+content"}, {"_", "_text"}}
	for _, pv := range prefVariants {
		for _, t := range texts {
			if pv[0] != "+@" && t != "t" && t != "a<b&c" && t != "\"" {
				continue
			}
			for _, attr := range []string{"", "v", "<&\"'"} {
				for _, rep := range []int{1, 2, 3} {
					// ground truth tree: <r a=attr><c>t</c>(<c>t2</c>)<d/></r>; rep 3 (decode only): the repeated element comes back after a different sibling
					doc := val.MapV()
					r := val.MapV()
					if attr != "" {
						r.Keys = append(r.Keys, val.StrV(pv[0]+"a"))
						r.Vals = append(r.Vals, val.StrV(attr))
					}
					if rep == 1 {
						r.Keys = append(r.Keys, val.StrV("c"))
						r.Vals = append(r.Vals, val.StrV(t))
					} else {
						r.Keys = append(r.Keys, val.StrV("c"))
						r.Vals = append(r.Vals, val.SeqV(val.StrV(t), val.StrV("second")))
					}
					r.Keys = append(r.Keys, val.StrV("d"))
					r.Vals = append(r.Vals, val.MapV(val.StrV(pv[0]+"k"), val.StrV(t), val.StrV(pv[1]), val.StrV("inner")))
					doc.Keys = append(doc.Keys, val.StrV("r"))
					doc.Vals = append(doc.Vals, r)
					for _, indent := range []int{2, 0} {
						if rep == 3 {
							break
						}
						p := yqlib.NewDefaultXmlPreferences()
						p.Indent = indent
						p.AttributePrefix, p.ContentName = pv[0], pv[1]
						out, eerr, pan := impl.Print([]*yqlib.CandidateNode{vNode(doc)}, yqlib.NewXMLEncoder(p))
						id++
						if pan != nil || eerr != nil {
							c.Violation("xml/encode/error", int64(id), c14Case{Format: "xml", Dir: "encode", Data: doc.JSON()}, fmt.Sprintf("%v %v", eerr, pan))
							continue
						}
						// expected etree-json: [tag, attrs, text, children]
						items = append(items, item{Kind: "xml", Text: out, Want: c14XMLWant(attr, t, rep), ID: id, Src: doc.JSON()})
						if indent == 2 {
							// the operators use the configured preferences: to_xml must write what the encoder writes, from_xml read what the decoder reads
							saved := yqlib.ConfiguredXMLPreferences
							yqlib.ConfiguredXMLPreferences.AttributePrefix, yqlib.ConfiguredXMLPreferences.ContentName = pv[0], pv[1]
							opOut, _, opErr := c14EvalStr("to_xml", vNode(doc))
							var backV string
							if parsed, perr, _ := impl.Parse("to_xml | from_xml"); perr == nil {
								if res, eerr, epan := impl.Eval(parsed, vNode(doc)); eerr == nil && epan == nil && len(res) == 1 {
									backV = c14LuaNormal(textV(res[0])).String()
								}
							}
							yqlib.ConfiguredXMLPreferences = saved
							if opErr != nil || strings.TrimSpace(opOut) != strings.TrimSpace(out) {
								c.Violation("xml/operator/to_xml-differs-from-encoder", int64(id), c14Case{Format: "xml", Dir: "operator", Data: doc.JSON(), Prefs: pv[0] + "|" + pv[1]},
									fmt.Sprintf("with attribute prefix %q and content name %q, to_xml gives %q (%v), the encoder %q", pv[0], pv[1], opOut, opErr, out))
							} else if want := c14LuaNormal(c14XMLDecoded(doc, t)).String(); backV != want {
								c.Violation("xml/operator/to_xml-from_xml", int64(id), c14Case{Format: "xml", Dir: "operator", Data: doc.JSON(), Prefs: pv[0] + "|" + pv[1]},
									fmt.Sprintf("with attribute prefix %q and content name %q, to_xml | from_xml gives %s, expected %s", pv[0], pv[1], backV, want))
							}
						}
					}
					// XML decode: own writer -> yq decoder -> compare with the expected mapping
					xmlText := c14XMLWrite(attr, t, rep)
					dp := yqlib.NewDefaultXmlPreferences()
					dp.AttributePrefix, dp.ContentName = pv[0], pv[1]
					n, derr, dpan := c14Decode(yqlib.NewXMLDecoder(dp), xmlText)
					c.Eval(1)
					c.Validated(1)
					c.Nontrivial("xml-decode" + xmlText)
					if dpan != nil || derr != nil {
						c.Violation("xml/decode/error/text:"+c14CharClass(t), int64(id), c14Case{Format: "xml", Dir: "decode", Data: xmlText}, fmt.Sprintf("well-formed XML %q rejected: %v %v", xmlText, derr, dpan))
					} else if got, want := c14LuaNormal(textV(n)).String(), c14LuaNormal(c14XMLDecoded(doc, t)).String(); got != want {
						c.Violation("xml/decode/value/text:"+c14CharClass(t), int64(id), c14Case{Format: "xml", Dir: "decode", Data: xmlText}, fmt.Sprintf("XML %q decodes to %s, expected %s", xmlText, got, want))
					}
				}
			}
		}
	}
	// XML decode: element names (among them the names HTML treats as void) x the decoder's switches; a well-formed document
	// means the same under each of them
	for _, name := range []string{"c", "link", "meta", "img", "br", "hr", "input", "param", "col", "base", "area", "LINK", "p", "td", "li", "option"} {
		for _, raw := range []bool{true, false} {
			for _, strict := range []bool{false, true} {
				for _, keepNS := range []bool{true, false} {
					id++
					xmlText := "<r><" + name + ">t</" + name + "><d k=\"v\">inner</d><" + name + "><e>u</e></" + name + "></r>"
					dp := yqlib.NewDefaultXmlPreferences()
					dp.UseRawToken, dp.StrictMode, dp.KeepNamespace = raw, strict, keepNS
					n, derr, dpan := c14Decode(yqlib.NewXMLDecoder(dp), xmlText)
					c.Eval(1)
					c.Validated(1)
					c.Nontrivial(fmt.Sprintf("xml-decode-switches%s%v%v%v", name, raw, strict, keepNS))
					want := fmt.Sprintf(`{"r":{%q:["t",{"e":"u"}],"d":{"+@k":"v","+content":"inner"}}}`, name)
					sw := fmt.Sprintf("raw-token=%v/strict=%v/keep-namespace=%v", raw, strict, keepNS)
					if dpan != nil || derr != nil {
						c.Violation("xml/decode/error/element-name/"+sw, int64(id), c14Case{Format: "xml", Dir: "decode", Data: xmlText, Prefs: sw}, fmt.Sprintf("well-formed XML %q rejected with %s: %v %v", xmlText, sw, derr, dpan))
					} else if got := c14LuaNormal(textV(n)).String(); got != c14LuaNormal(textV(vNode(fromJSONText(want)))).String() {
						c.Violation("xml/decode/value/element-name/"+sw, int64(id), c14Case{Format: "xml", Dir: "decode", Data: xmlText, Prefs: sw}, fmt.Sprintf("XML %q with %s decodes to %s, expected %s", xmlText, sw, got, want))
					}
				}
			}
		}
	}
	// TOML decode: documents from a mini-grammar
	for _, doc := range c14TomlDocs() {
		id++
		n, derr, dpan := c14Decode(yqlib.NewTomlDecoder(), doc)
		if dpan != nil {
			c.Violation("toml/decode/panic", int64(id), c14Case{Format: "toml", Dir: "decode", Data: doc}, fmt.Sprint(dpan))
			continue
		}
		got := "ERROR"
		if derr == nil {
			js, jerr, _ := impl.Print([]*yqlib.CandidateNode{n}, yqlib.NewJSONEncoder(impl.JSONPrefs()))
			if jerr == nil {
				got = strings.TrimSpace(js)
			} else {
				got = "JSON-ERROR " + jerr.Error()
			}
		} else {
			got = "ERROR " + derr.Error()
		}
		items = append(items, item{Kind: "toml", Text: doc, Want: got, ID: id})
	}
	in := filepath.Join(work, "items.json")
	b, _ := json.Marshal(items)
	os.WriteFile(in, b, 0o644)
	cmd := exec.Command(py, filepath.Join(fw.VerifDir, "oracles", "c14_batch.py"), in)
	out, err := cmd.Output()
	if err != nil {
		return fmt.Errorf("python oracle failed: %v", err)
	}
	var verdicts []struct {
		ID     int    `json:"id"`
		OK     bool   `json:"ok"`
		Detail string `json:"detail"`
		Class  string `json:"class"`
	}
	if err := json.Unmarshal(out, &verdicts); err != nil {
		return fmt.Errorf("python oracle output: %v: %s", err, clip(string(out), 300))
	}
	byID := map[int]item{}
	for _, it := range items {
		byID[it.ID] = it
	}
	for _, v := range verdicts {
		it := byID[v.ID]
		c.Eval(1)
		c.Validated(1)
		c.Nontrivial(it.Kind + it.Text)
		if v.OK {
			c.Outcome(it.Kind + it.Text)
			continue
		}
		dir := "encode"
		if it.Kind == "toml" {
			dir = "decode"
		}
		c.Violation(it.Kind+"/"+dir+"/"+v.Class, int64(v.ID), c14Case{Format: it.Kind, Dir: dir, Data: it.Text, Extra: []string{it.Want}}, v.Detail)
	}
	c.Res.Extra["batch_items_judged_by_python"] = len(verdicts)
	return nil
}

func c14Replay(raw json.RawMessage) (bool, string, error) {
	var cs c14Case
	if err := json.Unmarshal(raw, &cs); err != nil {
		return false, "", err
	}
	if cs.Format == "xml" || cs.Format == "toml" {
		// judged by the python oracle: re-run it on this one item
		py, err := exec.LookPath("python3")
		if err != nil {
			return false, "", err
		}
		want := ""
		if len(cs.Extra) > 0 {
			want = cs.Extra[0]
		}
		if cs.Format == "xml" && cs.Dir == "decode" {
			rp := yqlib.NewDefaultXmlPreferences()
			if strings.HasPrefix(cs.Prefs, "raw-token=") {
				rp.UseRawToken = strings.Contains(cs.Prefs, "raw-token=true")
				rp.StrictMode = strings.Contains(cs.Prefs, "strict=true")
				rp.KeepNamespace = strings.Contains(cs.Prefs, "keep-namespace=true")
			}
			n, derr, dpan := c14Decode(yqlib.NewXMLDecoder(rp), cs.Data)
			if derr != nil || dpan != nil {
				return true, fmt.Sprintf("%v %v", derr, dpan), nil
			}
			return true, "decodes to " + textV(n).String(), nil
		}
		if cs.Format == "toml" {
			n, derr, _ := c14Decode(yqlib.NewTomlDecoder(), cs.Data)
			want = "ERROR"
			if derr == nil {
				js, _, _ := impl.Print([]*yqlib.CandidateNode{n}, yqlib.NewJSONEncoder(impl.JSONPrefs()))
				want = strings.TrimSpace(js)
			}
		}
		f, _ := os.CreateTemp("", "c14-*.json")
		b, _ := json.Marshal([]map[string]interface{}{{"kind": cs.Format, "text": cs.Data, "want": want, "id": 1}})
		f.Write(b)
		f.Close()
		defer os.Remove(f.Name())
		out, err := exec.Command(py, filepath.Join(fw.VerifDir, "oracles", "c14_batch.py"), f.Name()).Output()
		if err != nil {
			return false, "", err
		}
		return strings.Contains(string(out), `"ok": false`), clip(string(out), 600), nil
	}
	kind, detail := c14Check(cs)
	if kind == "" || kind == "skip" {
		return false, "", nil
	}
	return true, kind + ": " + detail, nil
}

func init() {
	registerLater(func() {
		fw.Register(&fw.Check{
			ID: "C14", Level: "model_checking",
			Rule: "per format a domain generator with ground truth enumerates every value up to the bound; the real encoder's text is read by an independent reader and the independent writer's text by the real decoder (own RFC 4648 / form-urlencoded / RFC 4180 / .properties implementations, gopher-lua executing the text of yq's own Lua encoder, python xml.etree and tomllib in batch), plus the in-expression operator pairs; " +
				"non-trivial = distinct (format, direction, value, preferences)",
			Assumptions: []string{"values outside a format's domain are excluded by the generator (nil inside Lua tables, dotted or purely numeric property keys, typed CSV fields are compared as text, XML text is generated without leading/trailing white space)", "python3 with xml.etree and tomllib is the independent reader for XML output and TOML input"},
			Budget:      func(t string) time.Duration { return 20 * time.Minute },
			Run:         c14Run, Replay: c14Replay,
		})
	})
}
