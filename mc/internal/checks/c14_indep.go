package checks

import (
	"encoding/json"
	"fmt"
	"strings"
	"unicode/utf8"

	"verif/mc/internal/val"
)

// Independent readers and writers for C14 – written from the format specifications, sharing no code with the
// libraries yq delegates to (encoding/base64, net/url, encoding/csv, magiconair/properties, gopher-lua's parser for decoding).

const b64 = "ABCDEFGHIJKLMNOPQRSTUVWXYZabcdefghijklmnopqrstuvwxyz0123456789+/"

// RFC 4648 section 4
func ownBase64Encode(b []byte) string {
	var sb strings.Builder
	for i := 0; i < len(b); i += 3 {
		var n uint32
		k := 0
		for j := 0; j < 3; j++ {
			n <<= 8
			if i+j < len(b) {
				n |= uint32(b[i+j])
				k++
			}
		}
		sb.WriteByte(b64[(n>>18)&63])
		sb.WriteByte(b64[(n>>12)&63])
		if k > 1 {
			sb.WriteByte(b64[(n>>6)&63])
		} else {
			sb.WriteByte('=')
		}
		if k > 2 {
			sb.WriteByte(b64[n&63])
		} else {
			sb.WriteByte('=')
		}
	}
	return sb.String()
}

func ownBase64Decode(s string) ([]byte, bool) {
	s = strings.TrimRight(s, "=")
	var out []byte
	var n uint32
	bits := 0
	for _, ch := range s {
		i := strings.IndexRune(b64, ch)
		if i < 0 {
			return nil, false
		}
		n = n<<6 | uint32(i)
		bits += 6
		if bits >= 8 {
			bits -= 8
			out = append(out, byte(n>>uint(bits)))
			n &= (1 << uint(bits)) - 1
		}
	}
	return out, true
}

// application/x-www-form-urlencoded decoding: %XX and '+' for space
func ownFormDecode(s string) (string, bool) {
	var out []byte
	for i := 0; i < len(s); i++ {
		switch s[i] {
		case '+':
			out = append(out, ' ')
		case '%':
			if i+2 >= len(s) {
				return "", false
			}
			h := strings.IndexByte("0123456789ABCDEF", upper(s[i+1]))
			l := strings.IndexByte("0123456789ABCDEF", upper(s[i+2]))
			if h < 0 || l < 0 {
				return "", false
			}
			out = append(out, byte(h<<4|l))
			i += 2
		default:
			out = append(out, s[i])
		}
	}
	return string(out), true
}

func upper(b byte) byte {
	if b >= 'a' && b <= 'z' {
		return b - 32
	}
	return b
}

// RFC 3986 percent-encoding of everything but unreserved characters
func ownPercentEncode(s string) string {
	var sb strings.Builder
	for i := 0; i < len(s); i++ {
		b := s[i]
		if b >= 'a' && b <= 'z' || b >= 'A' && b <= 'Z' || b >= '0' && b <= '9' || b == '-' || b == '_' || b == '.' || b == '~' {
			sb.WriteByte(b)
		} else {
			sb.WriteString(fmt.Sprintf("%%%02X", b))
		}
	}
	return sb.String()
}

// ---- .properties (java.util.Properties load/store semantics, UTF-8 text) ---------------------------------------

func ownPropsParse(text string) ([][2]string, string) {
	var out [][2]string
	// logical lines
	lines := strings.Split(strings.ReplaceAll(text, "\r\n", "\n"), "\n")
	for i := 0; i < len(lines); i++ {
		ln := strings.TrimLeft(lines[i], " \t\f")
		if ln == "" || ln[0] == '#' || ln[0] == '!' {
			continue
		}
		// continuation: odd number of trailing backslashes
		for {
			n := 0
			for j := len(ln) - 1; j >= 0 && ln[j] == '\\'; j-- {
				n++
			}
			if n%2 == 1 && i+1 < len(lines) {
				i++
				ln = ln[:len(ln)-1] + strings.TrimLeft(lines[i], " \t\f")
				continue
			}
			break
		}
		// key
		var key, value strings.Builder
		j := 0
		unesc := func(dst *strings.Builder) bool {
			// ln[j] == '\\'
			if j+1 >= len(ln) {
				j++
				return true
			}
			c := ln[j+1]
			j += 2
			switch c {
			case 't':
				dst.WriteByte('\t')
			case 'n':
				dst.WriteByte('\n')
			case 'r':
				dst.WriteByte('\r')
			case 'f':
				dst.WriteByte('\f')
			case 'u':
				if j+4 > len(ln) {
					return false
				}
				var r rune
				if _, err := fmt.Sscanf(ln[j:j+4], "%04x", &r); err != nil {
					return false
				}
				dst.WriteRune(r)
				j += 4
			default:
				dst.WriteByte(c)
			}
			return true
		}
		for j < len(ln) {
			c := ln[j]
			if c == '\\' {
				if !unesc(&key) {
					return nil, "bad escape in key"
				}
				continue
			}
			if c == '=' || c == ':' || c == ' ' || c == '\t' || c == '\f' {
				break
			}
			key.WriteByte(c)
			j++
		}
		// separator: optional whitespace, optional one of = :, optional whitespace
		for j < len(ln) && (ln[j] == ' ' || ln[j] == '\t' || ln[j] == '\f') {
			j++
		}
		if j < len(ln) && (ln[j] == '=' || ln[j] == ':') {
			j++
		}
		for j < len(ln) && (ln[j] == ' ' || ln[j] == '\t' || ln[j] == '\f') {
			j++
		}
		for j < len(ln) {
			if ln[j] == '\\' {
				if !unesc(&value) {
					return nil, "bad escape in value"
				}
				continue
			}
			value.WriteByte(ln[j])
			j++
		}
		out = append(out, [2]string{key.String(), value.String()})
	}
	return out, ""
}

func ownPropsWrite(kv [][2]string) string {
	var sb strings.Builder
	esc := func(s string, key bool) string {
		var o strings.Builder
		for i, r := range s {
			switch {
			case r == '\\':
				o.WriteString(`\\`)
			case r == '\n':
				o.WriteString(`\n`)
			case r == '\t':
				o.WriteString(`\t`)
			case r == '\r':
				o.WriteString(`\r`)
			case r == ' ' && (key || i == 0):
				o.WriteString(`\ `)
			case key && (r == '=' || r == ':' || r == '#' || r == '!'):
				o.WriteString(`\` + string(r))
			case !key && i == 0 && (r == '#' || r == '!'):
				o.WriteRune(r) // only special at the start of a line
			default:
				o.WriteRune(r)
			}
		}
		return o.String()
	}
	for _, e := range kv {
		sb.WriteString(esc(e[0], true) + " = " + esc(e[1], false) + "\n")
	}
	return sb.String()
}

// ---- CSV (RFC 4180) -------------------------------------------------------------------------------------------

func ownCSVParse(text string, sep rune) ([][]string, string) {
	var rows [][]string
	var row []string
	var field strings.Builder
	inQ := false
	rs := []rune(text)
	started := false
	for i := 0; i < len(rs); i++ {
		r := rs[i]
		if inQ {
			if r == '"' {
				if i+1 < len(rs) && rs[i+1] == '"' {
					field.WriteRune('"')
					i++
				} else {
					inQ = false
				}
			} else {
				field.WriteRune(r)
			}
			continue
		}
		switch {
		case r == '"' && field.Len() == 0:
			inQ = true
			started = true
		case r == sep:
			row = append(row, field.String())
			field.Reset()
			started = true
		case r == '\n' || (r == '\r' && i+1 < len(rs) && rs[i+1] == '\n'):
			if r == '\r' {
				i++
			}
			if started || field.Len() > 0 || len(row) > 0 {
				row = append(row, field.String())
				rows = append(rows, row)
			}
			row, started = nil, false
			field.Reset()
		default:
			field.WriteRune(r)
			started = true
		}
	}
	if inQ {
		return nil, "unterminated quoted field"
	}
	if started || field.Len() > 0 || len(row) > 0 {
		row = append(row, field.String())
		rows = append(rows, row)
	}
	return rows, ""
}

func ownCSVWrite(rows [][]string, sep rune) string {
	var sb strings.Builder
	for _, r := range rows {
		for i, f := range r {
			if i > 0 {
				sb.WriteRune(sep)
			}
			if f == "" || strings.ContainsAny(f, "\"\r\n") || strings.ContainsRune(f, sep) || strings.HasPrefix(f, " ") || strings.HasSuffix(f, " ") {
				sb.WriteString(`"` + strings.ReplaceAll(f, `"`, `""`) + `"`)
			} else {
				sb.WriteString(f)
			}
		}
		sb.WriteString("\n")
	}
	return sb.String()
}

// ---- Lua ---------------------------------------------------------------------------------------------------------

func ownLuaWrite(v *val.V) string {
	switch v.K {
	case val.Null:
		return "nil"
	case val.Bool, val.Int, val.Float:
		return v.S
	case val.Str:
		var sb strings.Builder
		sb.WriteByte('"')
		for i := 0; i < len(v.S); i++ {
			b := v.S[i]
			switch {
			case b == '"' || b == '\\':
				sb.WriteByte('\\')
				sb.WriteByte(b)
			case b == '\n':
				sb.WriteString(`\n`)
			case b == '\r':
				sb.WriteString(`\r`)
			case b < 0x20 || b == 0x7f:
				sb.WriteString(fmt.Sprintf(`\%03d`, b))
			default:
				sb.WriteByte(b)
			}
		}
		sb.WriteByte('"')
		return sb.String()
	case val.Seq:
		var parts []string
		for _, c := range v.Vals {
			parts = append(parts, ownLuaWrite(c))
		}
		return "{" + strings.Join(parts, ", ") + "}"
	case val.Map:
		var parts []string
		for i, c := range v.Vals {
			parts = append(parts, "["+ownLuaWrite(val.StrV(v.Keys[i].S))+"] = "+ownLuaWrite(c))
		}
		return "{" + strings.Join(parts, "; ") + "}"
	}
	return "nil"
}

// ---- XML -----------------------------------------------------------------------------------------------------------

func xmlEsc(s string, attr bool) string {
	s = strings.ReplaceAll(s, "&", "&amp;")
	s = strings.ReplaceAll(s, "<", "&lt;")
	s = strings.ReplaceAll(s, ">", "&gt;")
	if attr {
		s = strings.ReplaceAll(s, `"`, "&quot;")
		s = strings.ReplaceAll(s, "\n", "&#10;")
	}
	return s
}

// c14XMLWrite: the ground-truth tree written by hand.
func c14XMLWrite(attr, t string, rep int) string {
	var sb strings.Builder
	sb.WriteString("<r")
	if attr != "" {
		sb.WriteString(` a="` + xmlEsc(attr, true) + `"`)
	}
	sb.WriteString(">")
	sb.WriteString("<c>" + xmlEsc(t, false) + "</c>")
	if rep == 2 {
		sb.WriteString("<c>second</c>")
	}
	sb.WriteString(`<d k="` + xmlEsc(t, true) + `">inner</d>`)
	if rep == 3 {
		sb.WriteString("<c>second</c>")
	}
	sb.WriteString("</r>")
	return sb.String()
}

// c14XMLWant: what python's etree must read from yq's encoding: [tag, {attrs}, text, [children]]
func c14XMLWant(attr, t string, rep int) string {
	attrs := map[string]string{}
	if attr != "" {
		attrs["a"] = attr
	}
	kids := []interface{}{[]interface{}{"c", map[string]string{}, t, []interface{}{}}}
	if rep == 2 {
		kids = append(kids, []interface{}{"c", map[string]string{}, "second", []interface{}{}})
	}
	kids = append(kids, []interface{}{"d", map[string]string{"k": t}, "inner", []interface{}{}})
	b, _ := json.Marshal([]interface{}{"r", attrs, "", kids})
	return string(b)
}

// c14XMLDecoded: what yq's documented mapping makes of the tree (attributes +@name, text +content, repeated children as a sequence).
func c14XMLDecoded(doc *val.V, t string) *val.V {
	var conv func(x *val.V) *val.V
	conv = func(x *val.V) *val.V {
		if x.IsScalar() {
			return val.StrV(x.S)
		}
		o := &val.V{K: x.K}
		for i, c := range x.Vals {
			if x.K == val.Map {
				o.Keys = append(o.Keys, val.StrV(x.Keys[i].S))
			}
			o.Vals = append(o.Vals, conv(c))
		}
		return o
	}
	return conv(doc)
}

// ---- TOML documents from a mini-grammar -------------------------------------------------------------------------------

func c14TomlDocs() []string {
	scalars := []string{`1`, `-17`, `0x1F`, `0o17`, `0b101`, `1_000`, `1.5`, `6.02e23`, `inf`, `-inf`, `true`, `false`, `"s"`, `"a\"b\\c\n"`, `'lit\n'`, `"""m
l"""`, `'''x
y'''`, `""`, `1979-05-27T07:32:00Z`, `1979-05-27`, `07:32:00`, `[1, 2]`, `[]`, `["a", [1]]`, `{a = 1}`, `{a = {b = 2}}`, `{}`, `[{x = 1}, {x = 2}]`, `"é😀"`}
	keys := []string{"k", "a.b", `"q k"`, `'l.k'`, "k-1", "1", `""`}
	var docs []string
	for _, s := range scalars {
		for _, k := range keys {
			docs = append(docs, k+" = "+s+"\n")
		}
		docs = append(docs, "[t]\nk = "+s+"\n", "[t.u]\nk = "+s+"\n[t]\nj = 1\n", "[[arr]]\nk = "+s+"\n[[arr]]\nk = 2\n", "top = 0\n[t]\nk = "+s+"\n[v]\nw = "+s+"\n", "a = "+s+"\nb = "+s+"\n")
	}
	docs = append(docs,
		"", "# only a comment\n", "a = 1 # c\n\n[t] # c\nb = 2\n",
		"[a]\nb = 1\n[a.c]\nd = 2\n[[a.e]]\nf = 3\n[[a.e]]\nf = 4\n",
		"[[fruits]]\nname = \"apple\"\n[fruits.physical]\ncolor = \"red\"\n[[fruits.varieties]]\nname = \"red delicious\"\n[[fruits]]\nname = \"banana\"\n",
		"x.y.z = 1\nx.y.w = 2\n[x.q]\nr = 3\n",
		"a = [\n  1,\n  2, # c\n]\n",
		"dup = 1\ndup = 2\n", "[t]\n[t]\n", "a = \n", "= 1\n", "a = 01\n", "[t\n",
	)
	for i, d := range docs {
		if !utf8.ValidString(d) {
			docs[i] = ""
		}
	}
	return docs
}
