package checks

import (
	"encoding/json"
	"fmt"
	"math/big"
	"strconv"
	"strings"
	"time"

	"github.com/mikefarah/yq/v4/pkg/yqlib"

	"verif/mc/internal/fw"
	"verif/mc/internal/impl"
	"verif/mc/internal/val"
)

// C15 – sort, min/max and the comparison operators agree on one consistent total order.
// Exhaustive: all ordered pairs and triples of a 29-scalar alphabet (laws of a total preorder, agreement with the stated
// order, agreement of < <= > >= min max), all sequences up to the length bound (permutation, sortedness, idempotence,
// stability), all 2^16 two-key patterns of length 16 (stability beyond Go's insertion-sort threshold), all key permutations for sort_keys.

type c15Scalar struct {
	Text  string // YAML spelling
	Class int    // 0 null, 1 bool, 2 number, 3 string
	Num   *big.Float
	Str   string
}

func c15Alphabet() []c15Scalar {
	num := func(text, value string) c15Scalar {
		f, _, err := big.ParseFloat(value, 10, 200, big.ToNearestEven)
		if err != nil {
			panic(err)
		}
		return c15Scalar{Text: text, Class: 2, Num: f}
	}
	str := func(s string) c15Scalar { return c15Scalar{Text: strconv.Quote(s), Class: 3, Str: s} }
	return []c15Scalar{
		{Text: "null", Class: 0}, {Text: "~", Class: 0}, {Text: "true", Class: 1}, {Text: "false", Class: 1},
		num("0", "0"), num("1", "1"), num("-1", "-1"), num("2", "2"), num("10", "10"),
		num("9223372036854775807", "9223372036854775807"), num("9223372036854775806", "9223372036854775806"), num("-9223372036854775808", "-9223372036854775808"),
		num("0x10", "16"), num("-0x10", "-16"), num("+0x10", "16"), num("-0o17", "-15"), num("0x7FFFFFFFFFFFFFFE", "9223372036854775806"), num("0x8000000000000000", "9223372036854775808"), num("18446744073709551615", "18446744073709551615"), num("0o7", "7"), num("1.0", "1"), num("1.5", "1.5"), num("-0.5", "-0.5"), num("1e3", "1000"), num("9.223372036854775807e18", "9223372036854775808"), num(".inf", "Inf"), num("-.inf", "-Inf"), {Text: ".nan", Class: 2},
		// the other spellings the YAML core schema resolves to a float
		num("-.Inf", "-Inf"), num("-.INF", "-Inf"), num(".Inf", "Inf"), num("+.INF", "Inf"), {Text: ".NaN", Class: 2},
		str("a"), str("b"), str("B"), str(""), str("10"), str("é"), str(" "),
		// strings that look like instants (text order and time order differ for this pair)
		str("2021-01-01T00:00:00+01:00"), str("2020-12-31T23:30:00Z"),
	}
}

// c15RefCmp: the order the statement fixes; ok=false where it fixes nothing (booleans among themselves, numbers against strings).
func c15RefCmp(x, y c15Scalar) (cmp int, ok bool) {
	if x.Class != y.Class {
		if x.Class <= 1 || y.Class <= 1 {
			if x.Class < y.Class {
				return -1, true
			}
			return 1, true
		}
		return 0, false // number vs string: any consistent choice
	}
	switch x.Class {
	case 0:
		return 0, true
	case 1:
		if x.Text == y.Text {
			return 0, true
		}
		return 0, false
	case 2:
		if x.Num == nil || y.Num == nil {
			return 0, false // NaN: no numeric value, any consistent position is accepted
		}
		return x.Num.Cmp(y.Num), true
	}
	return strings.Compare(x.Str, y.Str), true
}

type c15Case struct {
	Kind string   `json:"kind"`
	Els  []string `json:"elements"`
	Expr string   `json:"expr,omitempty"`
}

var c15Parsed = map[string]*yqlib.ExpressionNode{}

func c15Expr(s string) *yqlib.ExpressionNode {
	if e, ok := c15Parsed[s]; ok {
		return e
	}
	e := mustParse(s)
	c15Parsed[s] = e
	return e
}

func c15Run1(expr string, yaml string) (res []*yqlib.CandidateNode, err error, pan interface{}) {
	docs, derr, dpan := impl.DecodeYAML(yaml)
	if derr != nil || dpan != nil || len(docs) != 1 {
		panic(fmt.Sprintf("harness: cannot decode %q: %v %v", yaml, derr, dpan))
	}
	return impl.Eval(c15Expr(expr), docs[0])
}

// c15Lt: does the implementation's sort order x strictly before y? (sort_by(.k) of [{k: y, id: 0}, {k: x, id: 1}] puts id 1 first)
func c15Lt(x, y string) (lt bool, bad string) {
	res, err, pan := c15Run1("sort_by(.k) | .[0].id", fmt.Sprintf("[{k: %s, id: 0}, {k: %s, id: 1}]", y, x))
	if pan != nil {
		return false, fmt.Sprintf("panic: %v", pan)
	}
	if err != nil {
		return false, fmt.Sprintf("error: %v", err)
	}
	if len(res) != 1 {
		return false, "no result"
	}
	return res[0].Value == "1", ""
}

// c15Check dispatches on the case kind; returns a mismatch description or "".
func c15Check(cs c15Case) string {
	byText := map[string]c15Scalar{}
	for _, s := range c15Alphabet() {
		byText[s.Text] = s
	}
	switch cs.Kind {
	case "aliased":
		// elements written as aliases of anchored scalars: an alias stands for its anchored node, so the sorted values are
		// those of the same sequence written out (Expr says which of the elements are aliases)
		x, y, z := cs.Els[0], cs.Els[1], cs.Els[2]
		el := func(i int, text, name string) string {
			if cs.Expr[i] == 'a' {
				return "*" + name
			}
			return text
		}
		doc := fmt.Sprintf("d: [&p %s, &q %s, &r %s]\ns: [%s, %s, %s]\n", x, y, z, el(0, x, "p"), el(1, y, "q"), el(2, z, "r"))
		for _, op := range []string{"sort", "sort_by(.)", "[.[] | {\"k\": .}] | sort_by(.k) | map(.k)"} {
			got, err, pan := c15Run1(".s | "+op, doc)
			want, werr, wpan := c15Run1(op, fmt.Sprintf("[%s, %s, %s]", x, y, z))
			if pan != nil || wpan != nil {
				return fmt.Sprintf("aliased: %s on\n%spanics: %v %v", op, doc, pan, wpan)
			}
			if (err != nil) != (werr != nil) {
				return fmt.Sprintf("aliased: %s on\n%serror %v, on the sequence written out error %v", op, doc, err, werr)
			}
			if err != nil {
				continue
			}
			if g, w := impl.ToV(got[0]).String(), impl.ToV(want[0]).String(); g != w {
				return fmt.Sprintf("aliased: %s on\n%sgives the values %s, on the sequence written out %s", op, doc, g, w)
			}
		}
		return ""
	case "pair":
		x, y := cs.Els[0], cs.Els[1]
		xy, bad := c15Lt(x, y)
		if bad != "" {
			return "sorting [" + y + ", " + x + "]: " + bad
		}
		yx, bad := c15Lt(y, x)
		if bad != "" {
			return "sorting: " + bad
		}
		if xy && yx {
			return fmt.Sprintf("antisymmetry: sort orders %s before %s and %s before %s", x, y, y, x)
		}
		if cmp, ok := c15RefCmp(byText[x], byText[y]); ok {
			if (cmp < 0) != xy || (cmp > 0) != yx {
				return fmt.Sprintf("sort disagrees with the stated order: reference cmp(%s, %s) = %d, sort says %s<%s: %v, %s<%s: %v", x, y, cmp, x, y, xy, y, x, yx)
			}
		}
		// comparison operators, min, max agree wherever they are defined (same-class numbers or strings)
		sx, sy := byText[x], byText[y]
		if sx.Class == sy.Class && sx.Class >= 2 {
			for _, op := range []string{"<", "<=", ">", ">="} {
				res, err, pan := c15Run1(".[0] "+op+" .[1]", "["+x+", "+y+"]")
				if pan != nil {
					return fmt.Sprintf("%s %s %s panics: %v", x, op, y, pan)
				}
				if err != nil {
					continue // not defined for this operand pair
				}
				want := map[string]bool{"<": xy, "<=": !yx, ">": yx, ">=": !xy}[op]
				if len(res) != 1 || (res[0].Value == "true") != want {
					return fmt.Sprintf("%s %s %s answers %v but sort's order says %v", x, op, y, len(res) == 1 && res[0].Value == "true", want)
				}
			}
			for _, op := range []string{"min", "max"} {
				res, err, pan := c15Run1(op, "["+x+", "+y+"]")
				if pan != nil {
					return fmt.Sprintf("[%s, %s] | %s panics: %v", x, y, op, pan)
				}
				if err != nil || len(res) != 1 {
					continue
				}
				got := res[0].Value
				vx, vy := strings.Trim(x, `"`), strings.Trim(y, `"`)
				var want string
				switch {
				case xy:
					want = map[string]string{"min": vx, "max": vy}[op]
				case yx:
					want = map[string]string{"min": vy, "max": vx}[op]
				default:
					if got != vx && got != vy {
						return fmt.Sprintf("[%s, %s] | %s gives %q", x, y, op, got)
					}
					continue
				}
				if got != want {
					return fmt.Sprintf("[%s, %s] | %s gives %q, sort's order says %q", x, y, op, got, want)
				}
			}
		}
	case "stream":
		// several sequences in one evaluation: each is answered on its own (what `op` gives for a sequence evaluated alone)
		for _, op := range []string{"min", "max", "sort", "sort | .[0]", "unique", "sort_keys(.)", "[.[] | . < 2]"} {
			var alone []string
			skip := false
			for _, seq := range cs.Els {
				res, err, pan := c15Run1(op, seq)
				if pan != nil {
					return fmt.Sprintf("%s | %s panics: %v", seq, op, pan)
				}
				if err != nil {
					skip = true
					break
				}
				for _, r := range res {
					alone = append(alone, impl.ToV(r).String())
				}
			}
			if skip {
				continue
			}
			res, err, pan := c15Run1(".[] | "+op, "["+strings.Join(cs.Els, ", ")+"]")
			if pan != nil {
				return fmt.Sprintf(".[] | %s panics: %v", op, pan)
			}
			if err != nil {
				return fmt.Sprintf("[%s] | .[] | %s fails (%v) although every sequence is answered on its own", strings.Join(cs.Els, ", "), op, err)
			}
			var together []string
			for _, r := range res {
				together = append(together, impl.ToV(r).String())
			}
			if strings.Join(together, " ; ") != strings.Join(alone, " ; ") {
				return fmt.Sprintf("[%s] | .[] | %s gives [%s]; each sequence alone gives [%s]", strings.Join(cs.Els, ", "), op, strings.Join(together, " ; "), strings.Join(alone, " ; "))
			}
		}
	case "triple":
		x, y, z := cs.Els[0], cs.Els[1], cs.Els[2]
		lt := func(a, b string) bool { r, _ := c15Lt(a, b); return r }
		eq := func(a, b string) bool { return !lt(a, b) && !lt(b, a) }
		switch {
		case lt(x, y) && lt(y, z) && !lt(x, z):
			return fmt.Sprintf("transitivity: %s < %s and %s < %s but not %s < %s", x, y, y, z, x, z)
		case eq(x, y) && eq(y, z) && !eq(x, z):
			return fmt.Sprintf("transitivity of equivalence: %s ~ %s ~ %s but %s !~ %s", x, y, z, x, z)
		case lt(x, y) && eq(y, z) && !lt(x, z):
			return fmt.Sprintf("%s < %s ~ %s but not %s < %s", x, y, z, x, z)
		}
	case "seq":
		var items []string
		for i, e := range cs.Els {
			items = append(items, fmt.Sprintf("{k: %s, id: %d}", e, i))
		}
		yaml := "[" + strings.Join(items, ", ") + "]"
		res, err, pan := c15Run1("sort_by(.k)", yaml)
		if pan != nil {
			return fmt.Sprintf("sort_by panics: %v", pan)
		}
		if err != nil || len(res) != 1 {
			return fmt.Sprintf("sort_by fails: %v", err)
		}
		out := res[0].Content
		if len(out) != len(cs.Els) {
			return fmt.Sprintf("sort_by returned %d of %d elements", len(out), len(cs.Els))
		}
		seen := map[string]bool{}
		var ks, ids []string
		for _, o := range out {
			v := impl.ToV(o)
			if len(v.Vals) != 2 {
				return "element mangled: " + v.String()
			}
			id := v.Vals[1].S
			if seen[id] {
				return "not a permutation: element " + id + " twice"
			}
			seen[id] = true
			i, _ := strconv.Atoi(id)
			ks = append(ks, cs.Els[i])
			ids = append(ids, id)
		}
		for i := 0; i+1 < len(ks); i++ {
			if lt, _ := c15Lt(ks[i+1], ks[i]); lt {
				return fmt.Sprintf("output not ordered: %s stands before %s (output ids %v)", ks[i], ks[i+1], ids)
			}
			if l1, _ := c15Lt(ks[i], ks[i+1]); !l1 && ids[i] > ids[i+1] && len(ids[i]) >= len(ids[i+1]) {
				a, _ := strconv.Atoi(ids[i])
				b, _ := strconv.Atoi(ids[i+1])
				if a > b {
					return fmt.Sprintf("not stable: equal keys %s, %s came out in order of ids %v", ks[i], ks[i+1], ids)
				}
			}
		}
		// idempotence, and plain sort agrees with sort_by(.) on the bare scalars
		r2, err2, pan2 := c15Run1("sort_by(.k) | sort_by(.k)", yaml)
		if pan2 != nil || err2 != nil || len(r2) != 1 || impl.ToV(r2[0]).String() != impl.ToV(res[0]).String() {
			return "sort_by is not idempotent"
		}
		bare := "[" + strings.Join(cs.Els, ", ") + "]"
		r3, err3, pan3 := c15Run1("sort", bare)
		if pan3 != nil {
			return fmt.Sprintf("sort panics: %v", pan3)
		}
		if err3 != nil || len(r3) != 1 || len(r3[0].Content) != len(cs.Els) {
			return fmt.Sprintf("sort fails: %v", err3)
		}
		for i, o := range r3[0].Content {
			if impl.ToV(o).String() != impl.ToV(out[i].Content[1]).String() {
				return fmt.Sprintf("sort and sort_by(.k) disagree at position %d", i)
			}
		}
	case "stability":
		// cs.Els[0] = pattern of key letters, e.g. "abba…" (length 16)
		pat := cs.Els[0]
		var items []string
		for i, ch := range pat {
			items = append(items, fmt.Sprintf("{k: %c, id: %d}", ch, i))
		}
		res, err, pan := c15Run1("sort_by(.k) | map(.id)", "["+strings.Join(items, ", ")+"]")
		if pan != nil || err != nil || len(res) != 1 {
			return fmt.Sprintf("sort_by fails: %v %v", err, pan)
		}
		var want []string
		for _, k := range "abc" {
			for i, ch := range pat {
				if ch == k {
					want = append(want, strconv.Itoa(i))
				}
			}
		}
		var got []string
		for _, o := range res[0].Content {
			got = append(got, o.Value)
		}
		if strings.Join(got, ",") != strings.Join(want, ",") {
			return fmt.Sprintf("equal elements not kept in input order: ids %v, want %v", got, want)
		}
	case "sortkeys":
		// cs.Els = keys in document order; values are nested maps with the same keys reversed
		var inner []string
		for i := len(cs.Els) - 1; i >= 0; i-- {
			inner = append(inner, fmt.Sprintf("%s: %d", cs.Els[i], i))
		}
		var outer []string
		for i, k := range cs.Els {
			if i%2 == 0 {
				outer = append(outer, fmt.Sprintf("%s: {%s}", k, strings.Join(inner, ", ")))
			} else {
				outer = append(outer, fmt.Sprintf("%s: [%d, %d]", k, i, i+1))
			}
		}
		yaml := "{" + strings.Join(outer, ", ") + "}"
		for _, expr := range []string{"sort_keys(.)", "sort_keys(..)"} {
			docs, _, _ := impl.DecodeYAML(yaml)
			before := impl.ToV(docs[0])
			res, err, pan := impl.Eval(c15Expr(expr), docs[0])
			if pan != nil || err != nil || len(res) != 1 {
				return fmt.Sprintf("%s fails: %v %v", expr, err, pan)
			}
			after := impl.ToV(res[0])
			if msg := c15SortKeysOK(before, after, expr == "sort_keys(..)"); msg != "" {
				return expr + " on " + yaml + ": " + msg
			}
		}
	}
	return ""
}

func c15SortKeysOK(before, after *val.V, deep bool) string {
	if before.K != after.K || len(before.Vals) != len(after.Vals) {
		return "structure changed: " + after.String()
	}
	if before.K == val.Seq {
		for i := range before.Vals {
			if m := c15SortKeysOK(before.Vals[i], after.Vals[i], deep); m != "" {
				return m
			}
		}
		return ""
	}
	if before.K != val.Map {
		if before.String() != after.String() {
			return "scalar changed"
		}
		return ""
	}
	for i := 0; i+1 < len(after.Keys); i++ {
		if after.Keys[i].S > after.Keys[i+1].S {
			return "keys not sorted: " + after.String()
		}
	}
	for i, k := range before.Keys {
		found := false
		for j, ak := range after.Keys {
			if ak.S == k.S && ak.K == k.K {
				found = true
				if deep {
					if m := c15SortKeysOK(before.Vals[i], after.Vals[j], deep); m != "" {
						return m
					}
				} else if before.Vals[i].String() != after.Vals[j].String() {
					return "value under key " + k.S + " changed: " + after.Vals[j].String()
				}
			}
		}
		if !found {
			return "key " + k.String() + " lost: " + after.String()
		}
	}
	return ""
}

func c15Run(c *fw.Ctx) error {
	al := c15Alphabet()
	seqLen := 3
	if c.Thorough() {
		seqLen = 4
	}
	c.Res.Bound = fmt.Sprintf("all pairs and triples of %d scalars; every triple over a 12-scalar core with its elements written as aliases (6 alias patterns); all sequences of length <= %d over them; all 2^16 two-key patterns of length 16 (thorough: + 3^10 three-key patterns of length 14 prefix-closed); all key permutations of <= 4 keys for sort_keys; streams: every ordered pair (and triples over a core) of 44 short sequences through one evaluation of min, max, sort, unique, sort_keys, a comparison", len(al), seqLen)
	var idx int64
	do := func(cs c15Case, order int64) {
		idx++
		if !c.Mine(idx) || c.Expired() {
			return
		}
		msg := c15Check(cs)
		c.Eval(1)
		c.Validated(1)
		key := cs.Kind + strings.Join(cs.Els, "\x00")
		c.Nontrivial(key)
		if msg == "" {
			c.Outcome(key)
			if idx%20011 == 3 {
				c.Sample(cs)
			}
			return
		}
		c.Count("mismatch_"+cs.Kind, 1)
		// signature: the law and the classes/spellings involved for pairs; the law for longer cases
		sig := cs.Kind + ":" + strings.SplitN(msg, ":", 2)[0]
		if cs.Kind == "stream" {
			// the operator is the culprit atom
			sig = "stream"
			for _, op := range []string{"sort_keys(.)", "sort | .[0]", "[.[] | . < 2]", "unique", "sort", "min", "max"} {
				if strings.Contains(msg, "| "+op+" ") || strings.Contains(msg, "| "+op+"\n") {
					sig = "stream:" + op
					break
				}
			}
		}
		if cs.Kind == "pair" {
			sig += ":" + cs.Els[0] + "," + cs.Els[1]
		}
		c.Violation(sig, order, cs, msg)
	}
	for i, x := range al {
		for j, y := range al {
			do(c15Case{Kind: "pair", Els: []string{x.Text, y.Text}}, int64(i*100+j))
		}
	}
	// aliases as elements: every triple over a core of the alphabet x every non-empty choice of which elements are aliases
	core := []c15Scalar{}
	for _, s := range al {
		switch s.Text {
		case "null", "true", "0", "2", "10", "-1", "0x10", "1.5", "-.inf", `"a"`, `"10"`, `""`:
			core = append(core, s)
		}
	}
	for i, x := range core {
		for j, y := range core {
			for k, z := range core {
				for _, which := range []string{"aaa", "avv", "vav", "vva", "aav", "vaa"} {
					do(c15Case{Kind: "aliased", Els: []string{x.Text, y.Text, z.Text}, Expr: which}, int64(i*10000+j*100+k))
				}
			}
		}
	}
	for i, x := range al {
		for j, y := range al {
			for k, z := range al {
				do(c15Case{Kind: "triple", Els: []string{x.Text, y.Text, z.Text}}, 1e6+int64(i*10000+j*100+k))
			}
		}
	}
	var rec func(cur []string)
	rec = func(cur []string) {
		if len(cur) > 0 {
			do(c15Case{Kind: "seq", Els: append([]string{}, cur...)}, 2e6+int64(len(cur))*1e5)
		}
		if len(cur) == seqLen {
			return
		}
		for _, s := range al {
			rec(append(cur, s.Text))
		}
	}
	rec(nil)
	for p := 0; p < 1<<16; p++ {
		var sb strings.Builder
		for b := 0; b < 16; b++ {
			sb.WriteByte("ab"[(p>>b)&1])
		}
		do(c15Case{Kind: "stability", Els: []string{sb.String()}}, 3e6+int64(p))
	}
	if c.Thorough() {
		n := 1
		for i := 0; i < 10; i++ {
			n *= 3
		}
		for p := 0; p < n; p++ {
			q := p
			var sb strings.Builder
			for b := 0; b < 14; b++ {
				sb.WriteByte("abc"[q%3])
				q /= 3
				if b >= 9 {
					q = (p >> uint(b-9)) // deterministic tail
				}
			}
			do(c15Case{Kind: "stability", Els: []string{sb.String()}}, 4e6+int64(p))
		}
	}
	keys := []string{"b", "a", "ab", "B", "1", "c", `"1"`} // 1 and "1": an integer and a string key with the same text
	var perm func(cur []string, used []bool)
	perm = func(cur []string, used []bool) {
		if len(cur) > 0 {
			do(c15Case{Kind: "sortkeys", Els: append([]string{}, cur...)}, 5e6)
		}
		if len(cur) == 4 {
			return
		}
		for i, k := range keys {
			if !used[i] {
				used[i] = true
				perm(append(cur, k), used)
				used[i] = false
			}
		}
	}
	perm(nil, make([]bool, len(keys)))
	// streams: every ordered pair and triple of short sequences goes through one evaluation
	{
		scal := []string{"1", "2", "10", "-1", `"a"`, `"b"`}
		var seqs []string
		for _, a := range scal {
			seqs = append(seqs, "["+a+"]")
			for _, b := range scal {
				seqs = append(seqs, "["+a+", "+b+"]")
			}
		}
		seqs = append(seqs, "[]", "[3, 1, 2]")
		for i, a := range seqs {
			for j, b := range seqs {
				do(c15Case{Kind: "stream", Els: []string{a, b}}, 6e6+int64(i*100+j))
				if i < 8 && j < 8 {
					for _, d := range seqs[:8] {
						do(c15Case{Kind: "stream", Els: []string{a, b, d}}, 7e6+int64(i*100+j))
					}
				}
			}
		}
	}
	return nil
}

func c15Replay(raw json.RawMessage) (bool, string, error) {
	var cs c15Case
	if err := json.Unmarshal(raw, &cs); err != nil {
		return false, "", err
	}
	msg := c15Check(cs)
	return msg != "", fmt.Sprintf("%s %v: %s", cs.Kind, cs.Els, msg), nil
}

func init() {
	registerLater(func() {
		fw.Register(&fw.Check{
			ID: "C15", Level: "model_checking",
			Rule: "all ordered pairs and triples of a 29-scalar alphabet (null spellings, booleans, integers incl. 64-bit extremes one apart, hex/octal, floats equal to integers, strings incl. digit strings, empty, non-ASCII): antisymmetry, transitivity, agreement with the stated order, agreement of < <= > >= min max with the order sort produces; " +
				"all sequences up to the length bound: permutation, ordered, idempotent, stable, sort = sort_by(.); all 65 536 two-key patterns of length 16 for stability; sort_keys on all key permutations; distinct = distinct case",
			Assumptions: []string{"numbers versus strings and true versus false: the statement fixes no direction, any consistent one is accepted", "comparison operators are 'defined' where they return no error"},
			Budget: func(t string) time.Duration {
				if t == "thorough" {
					return 30 * time.Minute
				}
				return 3 * time.Minute
			},
			Run: c15Run, Replay: c15Replay,
		})
	})
}
