package checks

import (
	"encoding/json"
	"fmt"
	"strconv"
	"strings"
	"time"

	"github.com/mikefarah/yq/v4/pkg/yqlib"

	"verif/mc/internal/fw"
	"verif/mc/internal/impl"
	"verif/mc/internal/val"
)

// C16 – path, key and parent describe where a node actually is.
// Explicit-state breadth-first search: a state is (document, pipeline of derivation operators); the successor is obtained by
// replaying the pipeline plus one operator on a fresh decode; states are de-duplicated by the canonical dump of the whole
// reachable node graph; the invariant is evaluated in every state through the real `path`, `key`, `parent`, `keys` handlers.

var c16Ops = []string{
	"sort", "sort_by(.a)", "reverse", "unique", ".[1:]", ".[:-1]", "map(.)", "map(select(. != 1))", "filter(. != 1)", "[.[]]",
	". + [9]", "[9] + .", "flatten", "group_by(.a)", "to_entries", "with_entries(.)", "from_entries", `pick(["a"])`, "pick([1])", `omit(["a"])`, "omit([0])",
	".a", ".ab", ".[0]", ".[1]", ".[]", `{"z": .}`, "(. as $x | $x)", "del(.[0])", "del(.a)", `. * {"c": 1}`, `. + {"c": 1}`,
	"(.a = (.a | sort))", "(.a |= reverse)", "(.[0] = .[1])", "(.b = .a)", "(.a |= . + [9])", "(.[1] |= 7)", "unique_by(.a)", "[.[] | select(. != 1)]",
	// something is computed from the value on the side (read-only) and the value itself goes on: where its nodes are must not change
	"(([.. | path]) as $t | .)", "(([.. | key]) as $t | .)", "((.[1:]) as $t | .)", "((.a | .[1:]) as $t | .)", "((sort) as $t | .)", "((.a | reverse) as $t | .)", "(([.[]]) as $t | .)", "((.a | flatten) as $t | .)", "((. + [9]) as $t | .)", "((.a | unique) as $t | .)",
	"map_values(.)", "to_entries | from_entries", "del(.[2])", "del(.a[0])", "del(.[0][0])", "(.c = .a)", "sort_keys(.)", "with(.a; . = 3)", ".. | select(kind == \"seq\")",
}

func c16Docs(thorough bool) []*val.V {
	var docs []*val.V
	sc := []*val.V{val.IntV(1), val.IntV(0), val.StrV("a")}
	n := 3
	for _, d := range val.Universe(n, sc, []string{"a", "ab", "b"}) {
		if d.K == val.Seq || d.K == val.Map {
			docs = append(docs, d)
		}
	}
	hand := []string{
		`[3, 1, 2]`, `[[2, 1], [0]]`, `{"a": [3, 1, 2], "b": 1}`, `[{"a": 2}, {"a": 1}]`, `[{"a": 1, "b": 0}, {"a": 1}, {"a": 0}]`,
		`{"a": {"ab": 1, "a": 0}, "ab": [1]}`, `[{"key": "a", "value": 1}, {"key": "b", "value": [1, 0]}]`, `[1, [2, [3]], 1]`,
		`{"a": [{"a": 1}, {"a": 0}], "ab": 2}`,
		// two-digit indices: index arithmetic done on strings ("10" < "2") only shows from 11 elements on
		`[0, 1, 2, 3, 4, 5, 6, 7, 8, 9, 10, 11]`, `{"a": [0, 1, 2, 3, 4, 5, 6, 7, 8, 9, 10, 11], "b": [1, 0]}`,
	}
	for _, h := range hand {
		var x interface{}
		if err := json.Unmarshal([]byte(h), &x); err != nil {
			panic(err)
		}
		docs = append(docs, fromJSONText(h))
	}
	return docs
}

// fromJSONText builds a val.V from JSON text keeping key order (through the real YAML decoder, then ToV).
func fromJSONText(s string) *val.V {
	docs, err, p := impl.DecodeYAML(s)
	if err != nil || p != nil || len(docs) != 1 {
		panic(fmt.Sprintf("bad hand-written document %s: %v %v", s, err, p))
	}
	return impl.ToV(docs[0])
}

type c16Case struct {
	Doc  string   `json:"doc"`
	Pipe []string `json:"pipeline"`
}

var (
	c16PathE, c16KeyE, c16ParentE, c16KeysE *yqlib.ExpressionNode
	c16TravCache                            = map[string]*yqlib.ExpressionNode{}
)

func c16Init() {
	if c16PathE != nil {
		return
	}
	c16PathE = mustParse("path")
	c16KeyE = mustParse("key")
	c16ParentE = mustParse("parent")
	c16KeysE = mustParse("keys")
}

func mustParse(s string) *yqlib.ExpressionNode {
	n, err, p := impl.Parse(s)
	if err != nil || p != nil {
		panic(fmt.Sprintf("harness: cannot parse %q: %v %v", s, err, p))
	}
	return n
}

type c16Viol struct{ kind, detail string }

func pathText(n *yqlib.CandidateNode) ([]string, bool) {
	res, err, p := impl.EvalRO(c16PathE, n)
	if err != nil || p != nil || len(res) != 1 || res[0].Kind != yqlib.SequenceNode {
		return nil, false
	}
	var out []string
	for _, c := range res[0].Content {
		out = append(out, c.Value)
	}
	return out, true
}

// c16Invariant checks every node strictly inside each result.
func c16Invariant(results []*yqlib.CandidateNode) []c16Viol {
	var viols []c16Viol
	add := func(kind, format string, a ...interface{}) {
		if len(viols) < 20 {
			viols = append(viols, c16Viol{kind, fmt.Sprintf(format, a...)})
		}
	}
	seen := map[*yqlib.CandidateNode]bool{}
	var walk func(c *yqlib.CandidateNode, depth int)
	checkChild := func(c, n *yqlib.CandidateNode, keyTag, keyText string, isKey bool) {
		// parent
		pr, err, p := impl.EvalRO(c16ParentE, n)
		if err != nil || p != nil {
			add("parent-error", "parent of child %s of %s: err=%v panic=%v", keyText, c.Tag, err, p)
		} else if len(pr) != 1 || pr[0] != c {
			add("parent-mismatch", "`parent` of the child at key %s does not return the container that holds it (got %d results)", keyText, len(pr))
		}
		// key
		if !isKey {
			kr, err, p := impl.EvalRO(c16KeyE, n)
			if err != nil || p != nil {
				add("key-error", "key of child %s: err=%v panic=%v", keyText, err, p)
			} else if len(kr) != 1 {
				add("key-missing", "`key` of the child at %s yields %d results", keyText, len(kr))
			} else if kr[0].Value != keyText {
				if c.Kind == yqlib.SequenceNode {
					add("stale-seq-key", "element at index %s reports key %s:%s", keyText, kr[0].Tag, kr[0].Value)
				} else {
					add("wrong-map-key", "value under key %q reports key %q", keyText, kr[0].Value)
				}
			}
		}
		// path = path(container) + key
		pc, ok1 := pathText(c)
		pn, ok2 := pathText(n)
		if !ok1 || !ok2 {
			add("path-error", "path could not be evaluated at key %s", keyText)
		} else {
			_ = keyTag
			want := append(append([]string{}, pc...), keyText)
			if strings.Join(want, "/") != strings.Join(pn, "/") {
				kind := "path-mismatch"
				if len(pn) == len(want) && strings.Join(pn[:len(pn)-1], "/") == strings.Join(pc, "/") {
					if c.Kind == yqlib.SequenceNode {
						kind = "stale-seq-key"
					} else {
						kind = "wrong-map-key"
					}
				}
				add(kind, "path of child at %s is %v, container's path is %v", keyText, pn, pc)
			}
		}
		// re-traversal with the real traversal operator returns the node itself
		if !isKey {
			expr := ".[" + keyText + "]"
			if c.Kind == yqlib.MappingNode {
				expr = ".[" + strconv.Quote(keyText) + "]"
			}
			e := c16TravCache[expr]
			if e == nil {
				e = mustParse(expr)
				c16TravCache[expr] = e
			}
			dup := 0
			if c.Kind == yqlib.MappingNode {
				for i := 0; i+1 < len(c.Content); i += 2 {
					if c.Content[i].Value == keyText {
						dup++
					}
				}
			}
			if !strings.ContainsAny(keyText, "*?") && dup <= 1 {
				tr, err, p := impl.EvalRO(e, c)
				if err != nil || p != nil || len(tr) != 1 || tr[0] != n {
					// duplicate keys in a map legitimately return several
					if !(c.Kind == yqlib.MappingNode && len(tr) > 1) {
						add("retraverse-mismatch", "traversing %s from the container does not return the node (results=%d err=%v)", expr, len(tr), err)
					}
				}
			}
		}
	}
	walk = func(c *yqlib.CandidateNode, depth int) {
		if c == nil || seen[c] || depth > 12 {
			return
		}
		seen[c] = true
		switch c.Kind {
		case yqlib.SequenceNode:
			// keys enumerate the same indices
			kr, err, p := impl.EvalRO(c16KeysE, c)
			if err != nil || p != nil || len(kr) != 1 || len(kr[0].Content) != len(c.Content) {
				add("keys-mismatch", "keys of a %d-element sequence: err=%v", len(c.Content), err)
			} else {
				for i, k := range kr[0].Content {
					if k.Value != strconv.Itoa(i) {
						add("keys-mismatch", "keys[%d]=%s", i, k.Value)
					}
				}
			}
			for i, n := range c.Content {
				checkChild(c, n, "!!int", strconv.Itoa(i), false)
				walk(n, depth+1)
			}
		case yqlib.MappingNode:
			kr, err, p := impl.EvalRO(c16KeysE, c)
			if err != nil || p != nil || len(kr) != 1 || len(kr[0].Content) != len(c.Content)/2 {
				add("keys-mismatch", "keys of a %d-entry map: err=%v", len(c.Content)/2, err)
			} else {
				for i, k := range kr[0].Content {
					if k.Value != c.Content[2*i].Value {
						add("keys-mismatch", "keys[%d]=%s want %s", i, k.Value, c.Content[2*i].Value)
					}
				}
			}
			for i := 0; i+1 < len(c.Content); i += 2 {
				k, n := c.Content[i], c.Content[i+1]
				tag := "!!str"
				if k.Tag == "!!int" {
					tag = "!!int"
				}
				if k.Tag != "!!str" && k.Tag != "!!int" {
					continue // non-string keys: path element type is not specified
				}
				checkChild(c, k, tag, k.Value, true)
				checkChild(c, n, tag, k.Value, false)
				walk(n, depth+1)
			}
		}
	}
	for _, r := range results {
		walk(r, 0)
	}
	return viols
}

func c16Eval(doc *val.V, pipe []string) (res []*yqlib.CandidateNode, root *yqlib.CandidateNode, err error, panicked interface{}) {
	root = impl.Doc(doc)
	if len(pipe) == 0 {
		return []*yqlib.CandidateNode{root}, root, nil, nil
	}
	e, perr, pp := impl.Parse(strings.Join(pipe, " | "))
	if perr != nil || pp != nil {
		return nil, root, fmt.Errorf("parse: %v %v", perr, pp), nil
	}
	res, err, panicked = impl.Eval(e, root)
	return
}

func c16Run(c *fw.Ctx) error {
	c16Init()
	docs := c16Docs(c.Thorough())
	maxDepth := 2
	if c.Thorough() {
		maxDepth = 3
	}
	type st struct {
		doc  int
		pipe []string
	}
	c.Res.Bound = fmt.Sprintf("all pipelines of <= %d of %d derivation operators from %d documents", maxDepth, len(c16Ops), len(docs))
	var order int64
	completedDepth := 0
	for di, doc := range docs {
		if !c.Mine(int64(di)) {
			continue
		}
		seen := map[uint64]bool{}
		frontier := []st{{di, nil}}
		for depth := 0; depth <= maxDepth; depth++ {
			var next []st
			for _, s := range frontier {
				if c.Expired() {
					break
				}
				res, root, err, pan := c16Eval(doc, s.pipe)
				c.Eval(1)
				if pan != nil {
					c.Count("panics(C11's business)", 1)
					continue
				}
				if err != nil {
					c.Count("op_not_applicable", 1)
					continue
				}
				dump := impl.Dump(true, append(res, root)...)
				for _, op := range s.pipe {
					// a side evaluation leaves the dump unchanged; what it may leave behind in the nodes (memoised answers) is not
					// part of the dump, so such a state is not merged with the state it started from
					if strings.Contains(op, " as $t | .)") {
						dump += "\x00after " + op
					}
				}
				key := fw.H(dump)
				if seen[key] {
					c.Count("merged_states", 1)
					continue
				}
				seen[key] = true
				c.Res.States++
				c.Outcome(fmt.Sprintf("%d/%x", di, key))
				viols := c16Invariant(res)
				c.Validated(1)
				if len(s.pipe) > 0 {
					c.Nontrivial(fmt.Sprintf("%d/%x", di, key))
				}
				if len(viols) > 0 {
					producer := "decode"
					if len(s.pipe) > 0 {
						producer = s.pipe[len(s.pipe)-1]
					}
					kinds := map[string]bool{}
					for _, v := range viols {
						if kinds[v.kind] {
							continue
						}
						kinds[v.kind] = true
						order++
						c.Violation(v.kind+"/producer="+producer, int64(len(s.pipe))*1e9+int64(doc.Size())*1e6+order, c16Case{doc.JSON(), s.pipe}, v.detail)
					}
					c.Count("states_not_expanded_after_violation", 1)
					continue // successors are tainted
				}
				if len(c.Res.Samples) < 3 && len(s.pipe) == maxDepth {
					c.Sample(map[string]interface{}{"doc": doc.JSON(), "pipeline": strings.Join(s.pipe, " | "), "results": len(res)})
				}
				if depth < maxDepth {
					for _, op := range c16Ops {
						next = append(next, st{di, append(append([]string{}, s.pipe...), op)})
					}
				}
			}
			frontier = next
			if !c.Expired() && depth > completedDepth {
				completedDepth = depth
			}
		}
	}
	return nil
}

func c16Replay(raw json.RawMessage) (bool, string, error) {
	c16Init()
	var cs c16Case
	if err := json.Unmarshal(raw, &cs); err != nil {
		return false, "", err
	}
	doc := fromJSONText(cs.Doc)
	res, _, err, pan := c16Eval(doc, cs.Pipe)
	if err != nil || pan != nil {
		return false, fmt.Sprintf("pipeline no longer evaluates: %v %v", err, pan), nil
	}
	v := c16Invariant(res)
	if len(v) == 0 {
		return false, "", nil
	}
	return true, fmt.Sprintf("doc=%s pipeline=%q: %s: %s", cs.Doc, strings.Join(cs.Pipe, " | "), v[0].kind, v[0].detail), nil
}

func init() {
	registerLater(func() {
		fw.Register(&fw.Check{
			ID: "C16", Level: "model_checking",
			Rule: "explicit-state BFS: state = (document, pipeline of derivation operators) replayed on a fresh decode, de-duplicated by the canonical dump of the complete reachable CandidateNode graph; " +
				"in every state every node strictly inside every yielded value is checked through the real path/key/parent/keys/traverse handlers; non-trivial = a distinct graph state reached by at least one operator",
			Assumptions: []string{"handlers are functions of the reachable node graph and package-level state (the latter is C18's subject)", "the yielded value itself is exempt: a derived container reports the position of the node it was computed from"},
			Budget: func(t string) time.Duration {
				if t == "thorough" {
					return 25 * time.Minute
				}
				return 150 * time.Second
			},
			Run: c16Run, Replay: c16Replay,
		})
	})
}
