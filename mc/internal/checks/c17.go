package checks

import (
	"bytes"
	"encoding/json"
	"fmt"
	"golang.org/x/text/unicode/norm"
	"os"
	"os/exec"
	"path/filepath"
	"regexp"
	"strings"
	"time"

	"github.com/mikefarah/yq/v4/pkg/yqlib"

	"verif/mc/internal/fw"
	"verif/mc/internal/impl"
)

// C17 – @sh and -o=shell output is injection-safe and expands to the exact value.
// Exhaustive enumeration of strings by shell-lexical role (every byte, every pair, all short strings over an atom alphabet incl.
// command-substitution canaries); the oracle is the real shells: dash (/bin/sh) and bash expand every produced word.

var c17Atoms = []string{
	"'", "\"", "\\", "$", "`", " ", "\t", "\n", "*", "?", "[", "]", "~", "#", ";", "&", "|", "<", ">", "(", ")", "{", "}", "!", "-", "=", "%", ":", ",", ".", "/", "@", "+", "^",
	"a", "0", "é", "$(touch CANARY)", "`touch CANARY`", "$HOME", "\r", "\x7f", "\x01", " ", "😀",
}

var c17KeyAtoms = []string{"a", "A", "0", "_", "-", " ", "=", "$", "é", "ﬁ", "²", "", "$(touch CANARY)", "'", "\n", ";", "1a"}

type c17Case struct {
	Kind  string   `json:"kind"` // sh | shellvar
	Value string   `json:"value"`
	Keys  []string `json:"keys,omitempty"`
	Tag   string   `json:"tag,omitempty"` // tag of the scalar (default !!str)
}

func c17Values(thorough bool) []string {
	seen := map[string]bool{}
	var out []string
	add := func(s string) {
		if !seen[s] && !strings.ContainsRune(s, 0) {
			seen[s] = true
			out = append(out, s)
		}
	}
	add("")
	for b := 1; b < 0x80; b++ {
		add(string(rune(b)))
	}
	for a := 1; a < 0x80; a++ {
		for b := 1; b < 0x80; b++ {
			add(string(rune(a)) + string(rune(b)))
		}
	}
	for _, x := range c17Atoms {
		add(x)
		for _, y := range c17Atoms {
			add(x + y)
			for _, z := range c17Atoms {
				add(x + y + z)
			}
		}
	}
	// long values around the sizes at which buffers or fast paths change (4 KiB, 64 KiB), with a hazard at either end and in the middle
	for _, n := range []int{4095, 4096, 4097, 65535, 65536, 65537} {
		for _, h := range []string{"'", "\\'", "$(touch CANARY)", "a b", "\n", "`touch CANARY`", "\"", "~", ""} {
			if n > len(h) {
				pad := strings.Repeat("a", n-len(h))
				add(pad + h)
				add(h + pad)
				add(pad[:len(pad)/2] + h + pad[len(pad)/2:])
			}
		}
	}
	core := []string{"'", "\\", "$", "`", " ", "\n", "*", "a", "-", "~", "#", "$(touch CANARY)"}
	if thorough {
		core = append(core, "\"", ";", "=", "é")
		// every string of three ASCII bytes
		for a := 1; a < 0x80; a++ {
			for b := 1; b < 0x80; b++ {
				for d := 1; d < 0x80; d++ {
					add(string([]byte{byte(a), byte(b), byte(d)}))
				}
			}
		}
	}
	// every code point beyond ASCII (quick: the basic plane; thorough: planes 0-2 and 14), next to a quote
	top := rune(0xFFFF)
	if thorough {
		top = 0xE0FFF
	}
	for r := rune(0x80); r <= top; r++ {
		if r >= 0xD800 && r <= 0xDFFF || r >= 0x30000 && r < 0xE0000 {
			continue
		}
		add("a" + string(r) + "'b")
	}
	for _, w := range core {
		for _, x := range core {
			for _, y := range core {
				for _, z := range core {
					add(w + x + y + z)
				}
			}
		}
	}
	return out
}

var c17ShE, c17ShellFmt = (*yqlib.ExpressionNode)(nil), yqlib.Encoder(nil)

func c17EncodeSh(s string) (string, error) {
	if c17ShE == nil {
		c17ShE = mustParse("@sh")
	}
	n := &yqlib.CandidateNode{Kind: yqlib.ScalarNode, Tag: "!!str", Value: s}
	res, err, pan := impl.Eval(c17ShE, n)
	if pan != nil {
		return "", fmt.Errorf("panic: %v", pan)
	}
	if err != nil {
		return "", err
	}
	if len(res) != 1 {
		return "", fmt.Errorf("%d results", len(res))
	}
	return res[0].Value, nil
}

func c17EncodeShellVar(keys []string, value string, tag string) (string, error) {
	if tag == "" {
		tag = "!!str"
	}
	leaf := &yqlib.CandidateNode{Kind: yqlib.ScalarNode, Tag: tag, Value: value}
	node := leaf
	for i := len(keys) - 1; i >= 0; i-- {
		m := &yqlib.CandidateNode{Kind: yqlib.MappingNode, Tag: "!!map"}
		k := &yqlib.CandidateNode{Kind: yqlib.ScalarNode, Tag: "!!str", Value: keys[i], IsMapKey: true}
		m.Content = []*yqlib.CandidateNode{k, node}
		node = m
	}
	out, err, pan := impl.Print([]*yqlib.CandidateNode{node}, yqlib.NewShellVariablesEncoder())
	if pan != nil {
		return "", fmt.Errorf("panic: %v", pan)
	}
	return out, err
}

// c17EncodeShellDoc: a document with an earlier entry and the entry under test, through one encoder.
// form "map": {zz: {k: first}, k: value}; form "seq": [[x, first], value] (k unused).
func c17EncodeShellDoc(form, k, value string) (string, error) {
	str := func(s string) *yqlib.CandidateNode {
		return &yqlib.CandidateNode{Kind: yqlib.ScalarNode, Tag: "!!str", Value: s}
	}
	key := func(s string) *yqlib.CandidateNode {
		n := str(s)
		n.IsMapKey = true
		return n
	}
	var root *yqlib.CandidateNode
	if form == "seq" {
		inner := &yqlib.CandidateNode{Kind: yqlib.SequenceNode, Tag: "!!seq", Content: []*yqlib.CandidateNode{str("x"), str("first")}}
		root = &yqlib.CandidateNode{Kind: yqlib.SequenceNode, Tag: "!!seq", Content: []*yqlib.CandidateNode{inner, str(value)}}
	} else {
		inner := &yqlib.CandidateNode{Kind: yqlib.MappingNode, Tag: "!!map", Content: []*yqlib.CandidateNode{key(k), str("first")}}
		root = &yqlib.CandidateNode{Kind: yqlib.MappingNode, Tag: "!!map", Content: []*yqlib.CandidateNode{key("zz"), inner, key(k), str(value)}}
	}
	out, err, pan := impl.Print([]*yqlib.CandidateNode{root}, yqlib.NewShellVariablesEncoder())
	if pan != nil {
		return "", fmt.Errorf("panic: %v", pan)
	}
	return out, err
}

var c17NameRe = regexp.MustCompile(`^[A-Za-z_][A-Za-z0-9_]*=`)

// c17ShellBatch writes one script per shell expanding every chunk and returns, per item, what each shell saw ("\x00MISSING" if the framing broke).
func c17ShellBatch(work string, lines []string) (map[string][]string, bool, error) {
	dir, err := os.MkdirTemp(work, "sh-")
	if err != nil {
		return nil, false, err
	}
	defer os.RemoveAll(dir)
	// bait for globbing and tilde/variable expansion
	for _, f := range []string{"a", "ab", "0", "b", "x.y", "-", "é"} {
		os.WriteFile(filepath.Join(dir, f), []byte("bait"), 0o644)
	}
	script := filepath.Join(dir, "script.sh")
	var sb strings.Builder
	for i, l := range lines {
		fmt.Fprintf(&sb, "printf 'B%d\\0'\n%s\nprintf '\\0E%d\\0'\n", i, l, i)
	}
	os.WriteFile(script, []byte(sb.String()), 0o644)
	res := map[string][]string{}
	canary := false
	for _, shell := range []string{"/bin/dash", "/bin/bash"} {
		if _, err := os.Stat(shell); err != nil {
			if shell == "/bin/dash" {
				shell = "/bin/sh"
			} else {
				continue
			}
		}
		cmd := exec.Command("/usr/bin/env", "-i", "HOME="+dir+"/home", "PATH=/usr/bin:/bin", shell, script)
		cmd.Dir = dir
		var so, se bytes.Buffer
		cmd.Stdout, cmd.Stderr = &so, &se
		done := make(chan error, 1)
		cmd.Start()
		go func() { done <- cmd.Wait() }()
		select {
		case <-done:
		case <-time.After(120 * time.Second):
			cmd.Process.Kill()
			<-done
		}
		out := so.String()
		vals := make([]string, len(lines))
		for i := range lines {
			b, e := fmt.Sprintf("B%d\x00", i), fmt.Sprintf("\x00E%d\x00", i)
			s := strings.Index(out, b)
			if s < 0 {
				vals[i] = "\x00MISSING"
				continue
			}
			rest := out[s+len(b):]
			t := strings.Index(rest, e)
			if t < 0 {
				vals[i] = "\x00MISSING"
				continue
			}
			vals[i] = rest[:t]
			out = rest[t+len(e):]
		}
		res[shell] = vals
		if _, err := os.Stat(filepath.Join(dir, "CANARY")); err == nil {
			canary = true
			os.Remove(filepath.Join(dir, "CANARY"))
		}
	}
	return res, canary, nil
}

type c17Item struct {
	cs     c17Case
	line   string // shell text to run between the frame markers
	bad    string // violation found before the shell is asked
	badSig string
}

func c17Prepare(cs c17Case) c17Item {
	it := c17Item{cs: cs}
	switch cs.Kind {
	case "sh-after":
		// the value is the second of two strings that one `@sh` application encodes (cs.Keys[0] is the first)
		mk := func(s string) *yqlib.CandidateNode {
			return &yqlib.CandidateNode{Kind: yqlib.ScalarNode, Tag: "!!str", Value: s}
		}
		seq := &yqlib.CandidateNode{Kind: yqlib.SequenceNode, Tag: "!!seq"}
		seq.AddChildren([]*yqlib.CandidateNode{mk(cs.Keys[0]), mk(cs.Value)})
		res, err, pan := impl.Eval(mustParse(".[] | @sh"), seq)
		if pan != nil || err != nil || len(res) != 2 {
			it.bad = fmt.Sprintf(".[] | @sh on two strings: %v %v (%d results)", err, pan, len(res))
			return it
		}
		it.line = "printf '%s\\0' S " + res[1].Value + " E"
	case "sh":
		w, err := c17EncodeSh(cs.Value)
		if err != nil {
			it.bad = "@sh fails on a string: " + err.Error()
			return it
		}
		// a single word: START, the word, END must arrive as exactly three arguments
		it.line = "printf '%s\\0' S " + w + " E"
	case "shellvar", "shellvar-after-map", "shellvar-after-seq":
		var out string
		var err error
		switch cs.Kind {
		case "shellvar":
			out, err = c17EncodeShellVar(cs.Keys, cs.Value, cs.Tag)
		case "shellvar-after-map":
			out, err = c17EncodeShellDoc("map", cs.Keys[0], cs.Value)
		default:
			out, err = c17EncodeShellDoc("seq", "", cs.Value)
		}
		if err != nil {
			it.bad = "-o=shell fails: " + err.Error()
			return it
		}
		whole := out
		if cs.Kind != "shellvar" {
			// the earlier entries take one line each (their values are plain words); what follows is the entry under test
			nHead := 1
			if cs.Kind == "shellvar-after-seq" {
				nHead = 2
			}
			rest := out
			for i := 0; i < nHead; i++ {
				j := strings.Index(rest, "\n")
				if j < 0 || c17NameRe.FindString(rest[:j+1]) == "" {
					it.bad = fmt.Sprintf("line %d of the output is not NAME=word: %q", i+1, out)
					return it
				}
				rest = rest[j+1:]
			}
			out = rest
		}
		m := c17NameRe.FindString(out)
		if m == "" {
			it.bad = fmt.Sprintf("output does not start with NAME= where NAME matches [A-Za-z_][A-Za-z0-9_]*: %q", out)
			return it
		}
		name := strings.TrimSuffix(m, "=")
		if name == "_" {
			it.badSig = "shellvar/name-is-the-special-parameter-underscore"
			it.bad = fmt.Sprintf("assigns the special parameter $_ which the shell overwrites: %q", out)
			return it
		}
		if !strings.HasSuffix(out, "\n") {
			it.bad = fmt.Sprintf("assignment not terminated by a newline: %q", out)
			return it
		}
		// run the assignment in a subshell, then print the variable; printing S/E around detects extra output of injected commands
		it.line = "(\n" + whole + "printf '%s\\0' S \"$" + name + "\" E\n)"
	}
	return it
}

func c17Judge(it c17Item, seen map[string][]string, idx int, canary bool) string {
	want := "S\x00" + it.cs.Value + "\x00E\x00"
	for shell, vals := range seen {
		if vals[idx] != want {
			got := vals[idx]
			if got == "\x00MISSING" {
				got = "<the word broke the script>"
			}
			return fmt.Sprintf("%s expands %q to %q, expected the three arguments %q", shell, it.line, got, want)
		}
	}
	return ""
}

func c17Run(c *fw.Ctx) error {
	work, err := os.MkdirTemp("", "mc-c17-")
	if err != nil {
		return err
	}
	defer os.RemoveAll(work)
	values := c17Values(c.Thorough())
	var cases []c17Case
	for _, v := range values {
		cases = append(cases, c17Case{Kind: "sh", Value: v})
	}
	// -o=shell: keys at depth 1..3 over the key alphabet (all of depth <= 2, depth 3 over a core), values over a hazard list
	shellVals := []string{"v", "", "~", "a b", "$HOME", "$(touch CANARY)", "`touch CANARY`", "it's", "'", "\"", "\\", "a\nb", "-n", "*", "#x", "a=b", "x;touch CANARY", "é", "1"}
	for _, k1 := range c17KeyAtoms {
		for _, v := range shellVals {
			cases = append(cases, c17Case{Kind: "shellvar", Keys: []string{k1}, Value: v})
		}
		for _, k2 := range c17KeyAtoms {
			for _, v := range shellVals[:8] {
				cases = append(cases, c17Case{Kind: "shellvar", Keys: []string{k1 + k2}, Value: v}, c17Case{Kind: "shellvar", Keys: []string{k1, k2}, Value: v})
			}
		}
	}
	for _, k1 := range c17KeyAtoms[:6] {
		for _, k2 := range c17KeyAtoms[:6] {
			for _, k3 := range c17KeyAtoms[:6] {
				cases = append(cases, c17Case{Kind: "shellvar", Keys: []string{k1, k2, k3}, Value: "v w"})
			}
		}
	}
	// every code point whose compatibility decomposition brings ASCII punctuation, a space or a leading digit into the name
	// (thorough: every code point with any decomposition at all), alone and between two letters; and a command spelled in such characters
	for _, r := range c17DecomposingRunes(c.Thorough()) {
		cases = append(cases, c17Case{Kind: "shellvar", Keys: []string{"x" + string(r) + "y"}, Value: "v w"}, c17Case{Kind: "shellvar", Keys: []string{string(r)}, Value: "v w"})
	}
	for _, k := range []string{"x＄（touch　CANARY）", "＄（touch　CANARY）", "x｀touch　CANARY｀", "x；touch　CANARY；", "a⁼b", "a﹦$(touch CANARY)"} {
		for _, v := range shellVals[:4] {
			cases = append(cases, c17Case{Kind: "shellvar", Keys: []string{k}, Value: v}, c17Case{Kind: "shellvar", Keys: []string{"k", k}, Value: v})
		}
	}
	// two strings through one application of @sh: the second must not depend on the first
	for _, first := range []string{"x; touch CANARY #", "it's", "a'", "'", "a b", "$(touch CANARY)", "plain", "", "'a", "a\nb"} {
		for _, v := range []string{"v", "", "a b", "x; touch CANARY #", "$(touch CANARY)", "`touch CANARY`", "it's", "'", "\"", "\\", "a\nb", "-n", "*", "~", "#x", "é", "$HOME", "a'b'c", "''"} {
			cases = append(cases, c17Case{Kind: "sh-after", Keys: []string{first}, Value: v})
		}
	}
	// the same key (or index) met below another entry first and at the root afterwards, through one encoder
	for _, k := range c17KeyAtoms {
		for _, v := range shellVals[:6] {
			cases = append(cases, c17Case{Kind: "shellvar-after-map", Keys: []string{k}, Value: v})
		}
		for _, k2 := range c17KeyAtoms {
			cases = append(cases, c17Case{Kind: "shellvar-after-map", Keys: []string{k + k2}, Value: "v w"})
		}
	}
	for _, v := range shellVals {
		cases = append(cases, c17Case{Kind: "shellvar-after-seq", Value: v})
	}
	// scalars that are not strings: their text reaches the shell as well
	for _, tag := range []string{"!!null", "!!int", "!!float", "!!bool", "!custom"} {
		for _, v := range []string{"~", "null", "1", "-1", "1.5", "true", "0x1f", "1; touch CANARY", "$(touch CANARY)", "a b", "*", ""} {
			cases = append(cases, c17Case{Kind: "shellvar", Keys: []string{"k"}, Value: v, Tag: tag})
		}
	}
	// every value of the @sh list that is short also as a shell-variable value
	for _, v := range values {
		if len(v) <= 2 {
			cases = append(cases, c17Case{Kind: "shellvar", Keys: []string{"k"}, Value: v})
		}
	}
	c.Res.Bound = fmt.Sprintf("%d @sh values (every byte 0x01-0x7F, every pair (thorough: every triple), all strings of <= 3 atoms over a %d-atom alphabet, every code point beyond ASCII next to a quote, length 4 over a core, 153 values of 4 KiB and 64 KiB +-1 with a hazard at the start, middle or end) and %d -o=shell (key path, value) documents, each expanded by dash and bash", len(values), len(c17Atoms), len(cases)-len(values))
	var mine []c17Item
	for i, cs := range cases {
		if c.Mine(int64(i)) {
			mine = append(mine, c17Prepare(cs))
		}
	}
	const batch = 4000
	for start := 0; start < len(mine); start += batch {
		if c.Expired() {
			break
		}
		end := start + batch
		if end > len(mine) {
			end = len(mine)
		}
		var lines []string
		var idxOf []int
		for i := start; i < end; i++ {
			if mine[i].bad == "" {
				idxOf = append(idxOf, i)
				lines = append(lines, mine[i].line)
			}
		}
		seen, canary, err := c17ShellBatch(work, lines)
		if err != nil {
			return err
		}
		pos := map[int]int{}
		for j, i := range idxOf {
			pos[i] = j
		}
		for i := start; i < end; i++ {
			it := mine[i]
			c.Eval(1)
			c.Validated(1)
			c.Nontrivial(it.cs.Kind + "\x00" + strings.Join(it.cs.Keys, "\x01") + "\x00" + it.cs.Value + "\x00" + it.cs.Tag)
			msg := it.bad
			if msg == "" {
				msg = c17Judge(it, seen, pos[i], canary)
				if msg != "" {
					// a broken word can swallow the lines of its neighbours: judge the item again on its own
					if s1, _, err := c17ShellBatch(work, []string{it.line}); err == nil {
						msg = c17Judge(it, s1, 0, false)
					}
				}
			}
			c.Outcome(it.line)
			if msg == "" {
				if i%5003 == 1 {
					c.Sample(map[string]interface{}{"case": it.cs, "shell_text": it.line})
				}
				continue
			}
			c.Count("mismatch_"+it.cs.Kind, 1)
			// signature: the set of distinct hazardous characters of the value / key
			sig := it.cs.Kind + "/" + c17Sig(it.cs)
			if it.badSig != "" {
				sig = it.badSig
			}
			c.Violation(sig, int64(len(it.cs.Value)+len(strings.Join(it.cs.Keys, "")))*1e6+int64(i), it.cs, msg)
		}
		if canary {
			// find the culprit(s) one by one
			for _, i := range idxOf {
				s1, can1, _ := c17ShellBatch(work, []string{mine[i].line})
				_ = s1
				if can1 {
					c.Violation(mine[i].cs.Kind+"/command-executed/"+c17Sig(mine[i].cs), int64(i), mine[i].cs, fmt.Sprintf("expanding %q executed a command (CANARY file created)", mine[i].line))
				}
			}
		}
	}
	return nil
}

// c17DecomposingRunes lists the code points whose NFKD form contains an ASCII character that is not legal in a variable name
// (all=true: every code point whose NFKD form differs from itself).
func c17DecomposingRunes(all bool) []rune {
	var out []rune
	for r := rune(0x80); r <= 0x10FFFF; r++ {
		if r >= 0xD800 && r <= 0xDFFF {
			continue
		}
		d := norm.NFKD.String(string(r))
		if d == string(r) {
			continue
		}
		hazard := false
		for i := 0; i < len(d); i++ {
			b := d[i]
			if b < 0x80 && !(b == '_' || b >= 'a' && b <= 'z' || b >= 'A' && b <= 'Z' || b >= '0' && b <= '9') {
				hazard = true
			}
		}
		if hazard || all {
			out = append(out, r)
		}
	}
	return out
}

func c17Sig(cs c17Case) string {
	classes := map[string]bool{}
	classify := func(s string, prefix string) {
		if s == "" {
			classes[prefix+"empty"] = true
		}
		for _, r := range s {
			switch {
			case r >= 'a' && r <= 'z' || r >= 'A' && r <= 'Z' || r >= '0' && r <= '9':
			case r < 0x20 || r == 0x7f:
				classes[prefix+fmt.Sprintf("ctl%02x", r)] = true
			case r > 0x7f:
				classes[prefix+"nonascii"] = true
			default:
				classes[prefix+string(r)] = true
			}
		}
	}
	classify(cs.Value, "")
	for _, k := range cs.Keys {
		classify(k, "key:")
	}
	var l []string
	for k := range classes {
		l = append(l, k)
	}
	if len(l) > 3 {
		return "many"
	}
	// deterministic
	for i := range l {
		for j := i + 1; j < len(l); j++ {
			if l[j] < l[i] {
				l[i], l[j] = l[j], l[i]
			}
		}
	}
	return strings.Join(l, "")
}

func c17Replay(raw json.RawMessage) (bool, string, error) {
	var cs c17Case
	if err := json.Unmarshal(raw, &cs); err != nil {
		return false, "", err
	}
	work, err := os.MkdirTemp("", "mc-c17-")
	if err != nil {
		return false, "", err
	}
	defer os.RemoveAll(work)
	it := c17Prepare(cs)
	if it.bad != "" {
		return true, it.bad, nil
	}
	seen, canary, err := c17ShellBatch(work, []string{it.line})
	if err != nil {
		return false, "", err
	}
	if canary {
		return true, fmt.Sprintf("expanding %q executed a command", it.line), nil
	}
	msg := c17Judge(it, seen, 0, canary)
	return msg != "", msg, nil
}

func init() {
	registerLater(func() {
		fw.Register(&fw.Check{
			ID: "C17", Level: "model_checking",
			Rule: "values: the empty string, every byte 0x01-0x7F, every pair of them, every string of <= 3 atoms over an alphabet of shell-lexical roles (quotes, backslash, $, backtick, blanks, newline, glob and tilde characters, redirections, separators, non-ASCII, command-substitution canaries), length 4 over a core; " +
				"keys: strings over a 17-atom alphabet at nesting depth <= 3; the text produced by the real @sh operator / shell-variables encoder is expanded by dash and bash under env -i in a directory with glob bait: the word must arrive as exactly one argument equal to the value, NAME must match [A-Za-z_][A-Za-z0-9_]*, no canary may be created; distinct = distinct (kind, keys, value)",
			Assumptions: []string{"values are valid UTF-8 without NUL (the YAML data model); two shells (dash, bash) stand for 'a POSIX shell'"},
			Budget:      func(t string) time.Duration { return 15 * time.Minute },
			Run:         c17Run, Replay: c17Replay,
		})
	})
}
