package checks

import (
	"bytes"
	"encoding/json"
	"fmt"
	"os"
	"os/exec"
	"path/filepath"
	"regexp"
	"sort"
	"strings"
	"sync"
	"time"

	"github.com/mikefarah/yq/v4/pkg/yqlib"

	"verif/mc/internal/fw"
	"verif/mc/internal/impl"
)

// C18 – evaluation is deterministic and independent of earlier or concurrent runs.
// (A) explicit-state exploration of histories: every sequence of <= k evaluation events over an alphabet built around every
//     piece of library state that outlives an evaluation, each history in a fresh process; every event must produce the bytes it
//     produces when it is the first event of a fresh process.
// (B) stateless exploration of schedules: two evaluations on separate objects run under a cooperative scheduler that owns
//     every yield hook; depth-first search over all choice sequences within a pre-emption bound; each must return its solo bytes.
// (C) auxiliary, sampled: the same bodies free-running under the race detector.

type c18Event struct {
	Name   string `json:"name"`
	Expr   string `json:"expr"`
	Doc    string `json:"doc"`
	Shared bool   `json:"shared"`                         // use the history's shared parsed tree / decoder / evaluator / printer
	Out    string `json:"out,omitempty"`                  // output format (default yaml)
	Hist   bool   `json:"hist_only,omitempty"`            // quick tier: used in histories only, not in the schedule exploration
	NoPre  bool   `json:"no_header_preprocess,omitempty"` // the decoder is made with LeadingContentPreProcessing off (--header-preprocess=false)
}

func c18Alphabet() []c18Event {
	base := []c18Event{
		{Name: "sort", Expr: "sort", Doc: "[3, 1, 2]\n"},
		{Name: "sort_by", Expr: "sort_by(.a)", Doc: "[{a: 2}, {a: 1}]\n"},
		{Name: "update-string-literal", Expr: `"a" | . |= . + "b"`, Doc: "x: 1\n"},
		{Name: "update-number-literal", Expr: "1 | . |= . + 1", Doc: "x: 1\n"},
		{Name: "reduce-into-literal", Expr: ".[] as $i ireduce (0; . += $i)", Doc: "[1, 2]\n"},
		{Name: "envsubst", Expr: "envsubst", Doc: "\"${HOME}x\"\n"},
		{Name: "envsubst-ne", Expr: "envsubst(ne)", Doc: "\"${C18_EMPTY}x\"\n"},
		{Name: "envsubst-nu-ne", Expr: "envsubst(nu,ne)", Doc: "\"${C18_UNSET}x\"\n"},
		{Name: "load-f1", Expr: `load("f1.yml")`, Doc: "x: 1\n"},
		{Name: "load-f2", Expr: `load("f2.yml")`, Doc: "x: 1\n"},
		{Name: "load-comment-only", Expr: `load("f3.yml")`, Doc: "x: 1\n"},
		{Name: "load-props", Expr: `load_props("p.properties")`, Doc: "x: 1\n"},
		{Name: "load-xml", Expr: `load_xml("x.xml")`, Doc: "x: 1\n"},
		{Name: "to_json", Expr: ".a | to_json", Doc: "a: {b: [1, 2]}\n"},
		{Name: "from_yaml", Expr: ".a | from_yaml", Doc: "a: \"k: v\"\n"},
		{Name: "base64d", Expr: ".a | @base64d", Doc: "a: YQ==\n"},
		{Name: "to_props", Expr: "to_props", Doc: "a: {b: 1}\n"},
		{Name: "interpolation", Expr: `"x\(.a)y"`, Doc: "a: 1\n"},
		// operators that keep something in their expression node, inside an interpolated string (its text is parsed when it is evaluated)
		{Name: "interpolation-sort", Expr: `"x\(.a | sort | join(\",\"))y"`, Doc: "a: [b, a]\n"},
		{Name: "arith-literals", Expr: "1 + 1", Doc: "x: 1\n"},
		{Name: "variable", Expr: ".a as $x | $x", Doc: "a: 1\n"},
		{Name: "anchor-defined", Expr: ".b", Doc: "a: &x 1\nb: *x\n"},
		{Name: "alias-undefined", Expr: ".b", Doc: "b: *x\n"},
		{Name: "identity-comments", Expr: ".", Doc: "# lead\na: 1 # c\n"},
		{Name: "comment-only-doc", Expr: ".", Doc: "# only a comment\n"},
		{Name: "two-docs-index", Expr: "document_index", Doc: "a: 1\n---\na: 2\n"},
		{Name: "json-out", Expr: ".", Doc: "a: [1, {b: 2}]\n", Out: "json"},
		{Name: "props-out", Expr: ".", Doc: "a: {b: 1}\n", Out: "props"},
		// every other encoder behind a reused printer, with and without leading content
		{Name: "xml-out-commented", Expr: ".", Doc: "# lead\na: 1\n", Out: "xml", Hist: true},
		{Name: "xml-out", Expr: ".", Doc: "a: {b: 2}\n", Out: "xml", Hist: true},
		{Name: "lua-out-commented", Expr: ".", Doc: "# lead\na: 1\n", Out: "lua", Hist: true},
		{Name: "lua-out", Expr: ".", Doc: "a: {b: 2}\n", Out: "lua", Hist: true},
		{Name: "toml-out", Expr: ".", Doc: "# lead\na: {b: 2}\n", Out: "toml", Hist: true},
		{Name: "csv-out", Expr: ".", Doc: "# lead\n- [1, x]\n- [2, y]\n", Out: "csv", Hist: true},
		{Name: "shell-out", Expr: ".", Doc: "# lead\na: {b: 2}\n", Out: "shell", Hist: true},
		// both assignment forms of the operators that have one (the parsed trees of one form must not be affected by parsing the other)
		{Name: "style-assign", Expr: ".a style = .s", Doc: "a: x\ns: double\n", Hist: true},
		{Name: "style-update", Expr: `.a style |= "single"`, Doc: "a: x\n", Hist: true},
		{Name: "tag-assign", Expr: ".a tag = .s", Doc: "a: x\ns: \"!!foo\"\n", Hist: true},
		{Name: "tag-update", Expr: `.a tag |= "!!bar"`, Doc: "a: x\n", Hist: true},
		{Name: "line-comment-assign", Expr: ".a line_comment = .s", Doc: "a: x\ns: note\n", Hist: true},
		{Name: "line-comment-update", Expr: `.a line_comment |= "n"`, Doc: "a: x\n", Hist: true},
		{Name: "anchor-assign", Expr: ".a anchor = .s", Doc: "a: x\ns: k\n", Hist: true},
		{Name: "anchor-update", Expr: `.a anchor |= "m"`, Doc: "a: x\n", Hist: true},
		// a literal that is produced after a step that yields nothing, then updated in place
		{Name: "literal-after-empty-step", Expr: ".x[] | 5 | . += 1", Doc: "x: []\n", Hist: true},
		{Name: "string-literal-after-empty-step", Expr: `.x[] | "s" | . += "t"`, Doc: "x: []\n", Hist: true},
		// one parsed tree, two documents: a pattern put together from the document must be worked out for each of them
		{Name: "regex-from-document/a", Expr: `.p as $p | .v | test("^\($p)")`, Doc: "p: a\nv: ab\n", Hist: true},
		{Name: "regex-from-document/b", Expr: `.p as $p | .v | test("^\($p)")`, Doc: "p: b\nv: ab\n", Hist: true},
		{Name: "match-from-document/a", Expr: `.p as $p | .v | [match("\($p).")] | length`, Doc: "p: a\nv: abab\n", Hist: true},
		{Name: "match-from-document/b", Expr: `.p as $p | .v | [match("\($p).")] | length`, Doc: "p: x\nv: abab\n", Hist: true},
		// decoders that leave the header to the parser
		{Name: "comment-only-doc/no-preprocess", Expr: ".", Doc: "# only a comment\n", Hist: true, NoPre: true},
		{Name: "identity-comments/no-preprocess", Expr: ".", Doc: "# lead\na: 1 # c\n", Hist: true, NoPre: true},
		{Name: "plain-map/no-preprocess", Expr: ".", Doc: "a: 1\n", Hist: true, NoPre: true},
		{Name: "explicit-start/no-preprocess", Expr: ".a", Doc: "---\na: 1\n", Hist: true, NoPre: true},
	}
	return base
}

var c18Files = map[string]string{
	"f1.yml": "one: 1\n", "f2.yml": "two: 2\n", "f3.yml": "# just a comment\n", "p.properties": "a.b = 1\n", "x.xml": "<r><c>t</c></r>\n",
}

// c18Shared: the library objects a history may reuse between events.
type c18Shared struct {
	trees   map[string]*yqlib.ExpressionNode
	decoder yqlib.Decoder
	noPre   yqlib.Decoder
	eval    yqlib.StreamEvaluator
	printer map[string]yqlib.Printer
	buf     map[string]*bytes.Buffer
}

func c18Encoder(out string) yqlib.Encoder {
	switch out {
	case "json":
		return yqlib.NewJSONEncoder(impl.JSONPrefs())
	case "props":
		return yqlib.NewPropertiesEncoder(yqlib.NewDefaultPropertiesPreferences())
	case "xml":
		return yqlib.NewXMLEncoder(yqlib.NewDefaultXmlPreferences())
	case "lua":
		return yqlib.NewLuaEncoder(yqlib.NewDefaultLuaPreferences())
	case "toml":
		return yqlib.NewTomlEncoder()
	case "csv":
		return yqlib.NewCsvEncoder(yqlib.NewDefaultCsvPreferences())
	case "shell":
		return yqlib.NewShellVariablesEncoder()
	}
	return yqlib.NewYamlEncoder(impl.YamlPrefs())
}

// c18RunEvent executes one event; everything it returns is part of the observation.
func c18RunEvent(ev c18Event, sh *c18Shared) (out string) {
	defer func() {
		if r := recover(); r != nil {
			out += fmt.Sprintf("\nPANIC: %v", r)
		}
	}()
	var tree *yqlib.ExpressionNode
	var err error
	if ev.Shared && sh.trees[ev.Expr] != nil {
		tree = sh.trees[ev.Expr]
	} else {
		tree, err = yqlib.ExpressionParser.ParseExpression(ev.Expr)
		if err != nil {
			return "PARSE-ERROR: " + err.Error()
		}
		if ev.Shared {
			sh.trees[ev.Expr] = tree
		}
	}
	var dec yqlib.Decoder
	var ev2 yqlib.StreamEvaluator
	var pr yqlib.Printer
	var buf *bytes.Buffer
	if ev.Shared {
		if sh.decoder == nil {
			sh.decoder = yqlib.NewYamlDecoder(impl.YamlPrefs())
			sh.eval = yqlib.NewStreamEvaluator()
		}
		dec, ev2 = sh.decoder, sh.eval
		if ev.NoPre {
			if sh.noPre == nil {
				p := impl.YamlPrefs()
				p.LeadingContentPreProcessing = false
				sh.noPre = yqlib.NewYamlDecoder(p)
			}
			dec = sh.noPre
		}
		if sh.printer[ev.Out] == nil {
			sh.buf[ev.Out] = &bytes.Buffer{}
			sh.printer[ev.Out] = yqlib.NewPrinter(c18Encoder(ev.Out), yqlib.NewSinglePrinterWriter(sh.buf[ev.Out]))
		}
		pr, buf = sh.printer[ev.Out], sh.buf[ev.Out]
		buf.Reset()
	} else {
		dec = yqlib.NewYamlDecoder(impl.YamlPrefs())
		if ev.NoPre {
			p := impl.YamlPrefs()
			p.LeadingContentPreProcessing = false
			dec = yqlib.NewYamlDecoder(p)
		}
		ev2 = yqlib.NewStreamEvaluator()
		buf = &bytes.Buffer{}
		pr = yqlib.NewPrinter(c18Encoder(ev.Out), yqlib.NewSinglePrinterWriter(buf))
	}
	_, eerr := ev2.Evaluate("in.yml", strings.NewReader(ev.Doc), tree, pr, dec)
	out = buf.String()
	if eerr != nil {
		out += "\nERROR: " + eerr.Error()
	}
	return out
}

func newC18Shared() *c18Shared {
	return &c18Shared{trees: map[string]*yqlib.ExpressionNode{}, printer: map[string]yqlib.Printer{}, buf: map[string]*bytes.Buffer{}}
}

func c18PrepareDir() (string, error) {
	dir, err := os.MkdirTemp("", "mc-c18-")
	if err != nil {
		return "", err
	}
	for n, t := range c18Files {
		if err := os.WriteFile(filepath.Join(dir, n), []byte(t), 0o644); err != nil {
			return "", err
		}
	}
	os.Setenv("HOME", "/c18home")
	os.Setenv("C18_EMPTY", "")
	os.Unsetenv("C18_UNSET")
	return dir, os.Chdir(dir)
}

// C18Hist is the body of a fresh process: runs one history given as JSON and prints the outputs as a JSON list.
func C18Hist(arg string) int {
	var hist []c18Event
	if err := json.Unmarshal([]byte(arg), &hist); err != nil {
		fmt.Fprintln(os.Stderr, err)
		return 3
	}
	dir, err := c18PrepareDir()
	if err != nil {
		fmt.Fprintln(os.Stderr, err)
		return 3
	}
	defer os.RemoveAll(dir)
	sh := newC18Shared()
	var outs []string
	for _, ev := range hist {
		outs = append(outs, c18RunEvent(ev, sh))
	}
	b, _ := json.Marshal(outs)
	fmt.Println(string(b))
	return 0
}

func c18RunHistory(hist []c18Event) ([]string, error) {
	exe, _ := os.Executable()
	b, _ := json.Marshal(hist)
	cmd := exec.Command(exe, "c18hist", string(b))
	cmd.Env = append(os.Environ(), "TZ=UTC", "GOMAXPROCS=2")
	var so, se bytes.Buffer
	cmd.Stdout, cmd.Stderr = &so, &se
	done := make(chan error, 1)
	cmd.Start()
	go func() { done <- cmd.Wait() }()
	select {
	case err := <-done:
		if err != nil {
			return nil, fmt.Errorf("history process failed: %v: %s", err, clip(se.String(), 600))
		}
	case <-time.After(60 * time.Second):
		cmd.Process.Kill()
		<-done
		return nil, fmt.Errorf("history process did not terminate within 60 s")
	}
	var outs []string
	if err := json.Unmarshal(so.Bytes(), &outs); err != nil {
		return nil, fmt.Errorf("bad output of history process: %v: %s", err, clip(so.String(), 300))
	}
	return outs, nil
}

type c18Case struct {
	Kind     string     `json:"kind"` // history | schedule | race
	Hist     []c18Event `json:"history,omitempty"`
	Threads  []c18Event `json:"threads,omitempty"`
	Schedule []int      `json:"schedule,omitempty"`
	Bound    int        `json:"bound,omitempty"`
}

// modulo the separator a reused printer legitimately prints between documents (C10's rule)
func c18SameModuloSeparator(got, solo string) bool {
	if got == solo {
		return true
	}
	return strings.TrimPrefix(got, "---\n") == solo
}

// ---------------------------------------------------------------------------------------------------------------
// (B) cooperative scheduler

type c18Point struct {
	enabled []int // canonical order: running thread first if still enabled, then ascending ids
	chosen  int   // index into enabled
	name    string
	running int
}

type c18Exec struct {
	points   []c18Point
	choices  []int
	outs     []string
	diverged string
}

type c18Sched struct {
	n        int
	resume   []chan struct{}
	arrived  chan int // thread id that reached a point (or -1-id when finished)
	running  int
	finished []bool
}

// c18Execute runs the threads' bodies under the scheduler following prefix, then choice 0 everywhere.
func c18Execute(threads []c18Event, prefix []int, resetParser bool) *c18Exec {
	n := len(threads)
	s := &c18Sched{n: n, resume: make([]chan struct{}, n), arrived: make(chan int), finished: make([]bool, n), running: -1}
	x := &c18Exec{outs: make([]string, n)}
	for i := range s.resume {
		s.resume[i] = make(chan struct{})
	}
	pointName := make([]string, n)
	yqlib.VerifYieldHook = func(name string) {
		tid := s.running
		pointName[tid] = name
		s.arrived <- tid
		<-s.resume[tid]
	}
	defer func() { yqlib.VerifYieldHook = nil }()
	if resetParser {
		yqlib.ExpressionParser = nil
	}
	var wg sync.WaitGroup
	for i := 0; i < n; i++ {
		wg.Add(1)
		go func(tid int) {
			defer wg.Done()
			<-s.resume[tid] // wait to be scheduled for the first time
			func() {
				defer func() {
					if r := recover(); r != nil {
						x.outs[tid] += fmt.Sprintf("\nPANIC: %v", r)
					}
				}()
				if resetParser {
					yqlib.InitExpressionParser()
				}
				x.outs[tid] = c18RunEvent(threads[tid], newC18Shared())
			}()
			s.arrived <- -1 - tid
		}(i)
	}
	// every thread is parked at its start point
	atPoint := make([]bool, n)
	for i := range atPoint {
		atPoint[i] = true
		pointName[i] = "start"
	}
	step := 0
	for {
		var enabled []int
		if s.running >= 0 && !s.finished[s.running] {
			enabled = append(enabled, s.running)
		}
		for i := 0; i < n; i++ {
			if !s.finished[i] && i != s.running {
				enabled = append(enabled, i)
			}
		}
		if len(enabled) == 0 {
			break
		}
		choice := 0
		if step < len(prefix) {
			choice = prefix[step]
			if choice >= len(enabled) {
				x.diverged = fmt.Sprintf("replay divergence at step %d: choice %d of %d enabled", step, choice, len(enabled))
				choice = 0
			}
		}
		tid := enabled[choice]
		x.points = append(x.points, c18Point{enabled: enabled, chosen: choice, name: pointName[tid], running: s.running})
		x.choices = append(x.choices, choice)
		step++
		s.running = tid
		s.resume[tid] <- struct{}{}
		got := <-s.arrived
		if got < 0 {
			s.finished[-1-got] = true
		}
	}
	wg.Wait()
	return x
}

func (x *c18Exec) preemptionsBefore(i int) int {
	c := 0
	for j := 0; j < i; j++ {
		p := x.points[j]
		if p.running >= 0 && len(p.enabled) > 0 && p.enabled[0] == p.running && p.chosen != 0 {
			c++
		}
	}
	return c
}

// c18Explore: depth-first over all choice sequences within the pre-emption bound.
func c18Explore(threads []c18Event, bound int, resetParser bool, visit func(x *c18Exec) bool) (executions int) {
	var rec func(prefix []int) bool
	rec = func(prefix []int) bool {
		x := c18Execute(threads, prefix, resetParser)
		executions++
		if !visit(x) {
			return false
		}
		for i := len(prefix); i < len(x.points); i++ {
			p := x.points[i]
			cost := x.preemptionsBefore(i)
			runningEnabled := p.running >= 0 && len(p.enabled) > 0 && p.enabled[0] == p.running
			for alt := 1; alt < len(p.enabled); alt++ {
				c := cost
				if runningEnabled {
					c++
				}
				if c > bound {
					continue
				}
				np := append(append([]int{}, x.choices[:i]...), alt)
				if !rec(np) {
					return false
				}
			}
		}
		return true
	}
	rec(nil)
	return
}

// ---------------------------------------------------------------------------------------------------------------

func c18Run(c *fw.Ctx) error {
	// (C) race detector pass: shard 0 only; sampled, auxiliary; runs beside the explorations, its findings are recorded at the end
	raceDone := make(chan func(), 1)
	if c.Shard == 0 {
		go func() { raceDone <- c18RacePass(c, c.Thorough()) }()
	} else {
		raceDone <- func() {}
	}
	defer func() { (<-raceDone)() }()
	al := c18Alphabet()
	var events []c18Event
	for _, e := range al {
		events = append(events, e)
		s := e
		s.Shared = true
		s.Name += "/shared"
		events = append(events, s)
	}
	// solo baselines, each in its own fresh process
	solo := map[string]string{}
	soloOf := func(e c18Event) (string, error) {
		k := e.Name
		if v, ok := solo[k]; ok {
			return v, nil
		}
		o, err := c18RunHistory([]c18Event{e})
		if err != nil {
			return "", err
		}
		solo[k] = o[0]
		return o[0], nil
	}
	core := map[string]bool{"sort/shared": true, "update-number-literal/shared": true, "reduce-into-literal/shared": true, "envsubst": true, "envsubst-ne": true, "load-f1": true, "load-comment-only": true,
		"anchor-defined/shared": true, "alias-undefined/shared": true, "identity-comments/shared": true, "comment-only-doc/shared": true, "two-docs-index/shared": true, "json-out/shared": true, "load-f2/shared": true}
	var hists [][]c18Event
	for _, a := range events {
		for _, b := range events {
			hists = append(hists, []c18Event{a, b})
		}
	}
	// revisits: A with retained objects, any B, A again with the objects it retained (what B leaves behind in them)
	for _, a := range events {
		if !a.Shared {
			continue
		}
		for _, b := range events {
			hists = append(hists, []c18Event{a, b, a})
		}
	}
	nRevisit := len(hists) - len(events)*len(events)
	var coreEvents []c18Event
	for _, e := range events {
		if core[e.Name] || c.Thorough() {
			coreEvents = append(coreEvents, e)
		}
	}
	if c.Thorough() {
		coreEvents = nil
		for _, e := range events {
			if core[e.Name] || strings.HasSuffix(e.Name, "/shared") {
				coreEvents = append(coreEvents, e)
			}
		}
	}
	for _, a := range coreEvents {
		for _, b := range coreEvents {
			for _, d := range coreEvents {
				hists = append(hists, []c18Event{a, b, d})
			}
		}
	}
	bound := 2
	if c.Thorough() {
		bound = 3
	}
	var schedAl []c18Event
	for _, e := range al {
		if !e.Hist || c.Thorough() {
			schedAl = append(schedAl, e)
		}
	}
	c.Res.Bound = fmt.Sprintf("histories: all %d^2 pairs of events (%d events x {fresh, shared library objects}), all %d revisits A,B,A (A reusing its objects), and all %d^3 triples over the core events, each in a fresh process; schedules: all %d^2 thread pairs, every choice sequence with <= %d pre-emptions at the %d kinds of yield point", len(events), len(al), nRevisit, len(coreEvents), len(schedAl), bound, 7)
	var idx int64
	for hi, h := range hists {
		idx++
		if !c.Mine(idx) {
			continue
		}
		if c.Expired() {
			return nil
		}
		outs, err := c18RunHistory(h)
		c.Eval(1)
		c.Res.States++
		if err != nil {
			c.Violation("history/process-died/"+h[len(h)-1].Name, int64(len(h))*1e6+int64(hi), c18Case{Kind: "history", Hist: h}, err.Error())
			continue
		}
		c.Validated(int64(len(h)))
		var names []string
		for _, e := range h {
			names = append(names, e.Name)
		}
		c.Nontrivial("h:" + strings.Join(names, ","))
		for i, e := range h {
			want, err := soloOf(e)
			if err != nil {
				return err
			}
			c.Outcome(e.Name + "\x00" + outs[i])
			if !c18SameModuloSeparator(outs[i], want) {
				// culprit pair: the earliest earlier event that alone causes it
				culprit := "?"
				for j := 0; j < i; j++ {
					o2, err2 := c18RunHistory([]c18Event{h[j], e})
					if err2 == nil && !c18SameModuloSeparator(o2[1], want) {
						culprit = h[j].Name
						break
					}
				}
				c.Count("mismatch_history", 1)
				c.Violation("history/"+culprit+"->"+e.Name, int64(len(h))*1e6+int64(hi), c18Case{Kind: "history", Hist: h},
					fmt.Sprintf("event %s after %v gives %q; first in a fresh process it gives %q", e.Name, names[:i], outs[i], want))
				break
			}
		}
		if hi%997 == 3 {
			c.Sample(map[string]interface{}{"history": names, "outputs": outs})
		}
	}
	// (B) schedules – in-process, the scheduler owns every yield hook
	dir, err := c18PrepareDir()
	if err != nil {
		return err
	}
	defer os.RemoveAll(dir)
	var points int64
	pointKinds := map[string]bool{}
	for ai, a := range schedAl {
		for bi, b := range schedAl {
			idx++
			if !c.Mine(idx) {
				continue
			}
			if c.Expired() {
				return nil
			}
			threads := []c18Event{a, b}
			soloA := c18Execute([]c18Event{a}, nil, false).outs[0]
			soloB := c18Execute([]c18Event{b}, nil, false).outs[0]
			n := c18Explore(threads, bound, false, func(x *c18Exec) bool {
				points += int64(len(x.points))
				for _, p := range x.points {
					pointKinds[p.name] = true
				}
				c.Outcome(fmt.Sprintf("s:%s|%s|%s|%s", a.Name, b.Name, x.outs[0], x.outs[1]))
				bad := ""
				switch {
				case x.diverged != "":
					bad = x.diverged
				case x.outs[0] != soloA:
					bad = fmt.Sprintf("thread 0 (%s) returns %q, alone %q", a.Name, x.outs[0], soloA)
				case x.outs[1] != soloB:
					bad = fmt.Sprintf("thread 1 (%s) returns %q, alone %q", b.Name, x.outs[1], soloB)
				}
				if bad != "" {
					var trace []string
					for _, p := range x.points {
						trace = append(trace, fmt.Sprintf("T%d@%s", p.enabled[p.chosen], p.name))
					}
					c.Count("mismatch_schedule", 1)
					c.Violation("schedule/"+a.Name+"||"+b.Name, int64(len(x.choices))*1e3+int64(ai*100+bi), c18Case{Kind: "schedule", Threads: threads, Schedule: x.choices, Bound: bound},
						bad+"\nschedule: "+strings.Join(trace, " "))
				}
				return true
			})
			c.Eval(int64(n))
			c.Validated(int64(n))
			c.Res.Transitions += points
			c.Nontrivial("s:" + a.Name + "||" + b.Name)
			c.Count("schedules", int64(n))
		}
	}
	for k := range pointKinds {
		c.SetAdd("yield_point_kinds", k)
	}
	return nil
}

var c18RaceFrame = regexp.MustCompile(`github\.com/mikefarah/yq/v4/pkg/yqlib\.((?:\(\*?\w+\)\.)?\w+(?:\.func\d+)*)\(\)\n\s+(\S+?):(\d+)`)

func c18RacePass(ctx *fw.Ctx, thorough bool) func() {
	var acts []func(c *fw.Ctx)
	c := &c18Deferred{acts: &acts, ctx: ctx}
	race := filepath.Join(fw.VerifDir, "bin", "mc-race")
	if _, err := os.Stat(race); err != nil {
		c.Note("bin/mc-race not built: race-detector pass skipped")
		c.Extra("race_pass", map[string]interface{}{"runs": 0, "exhaustive": false, "skipped": true})
		return c.apply
	}
	reps := "20"
	if thorough {
		reps = "100"
	}
	work, _ := os.MkdirTemp("", "mc-c18race-")
	defer os.RemoveAll(work)
	const parts = 8
	var so bytes.Buffer
	var mu sync.Mutex
	var wg sync.WaitGroup
	for part := 0; part < parts; part++ {
		wg.Add(1)
		go func(part int) {
			defer wg.Done()
			cmd := exec.Command(race, "c18race", reps, fmt.Sprintf("%d/%d", part, parts))
			cmd.Env = append(os.Environ(), "GORACE=halt_on_error=0 log_path="+filepath.Join(work, fmt.Sprintf("race%d", part)), "GOMAXPROCS=4", "TZ=UTC")
			var o bytes.Buffer
			cmd.Stdout, cmd.Stderr = &o, &o
			done := make(chan error, 1)
			if err := cmd.Start(); err != nil {
				return
			}
			go func() { done <- cmd.Wait() }()
			select {
			case <-done:
			case <-time.After(10 * time.Minute):
				cmd.Process.Kill()
				<-done
				c.Note("race pass timed out")
			}
			mu.Lock()
			so.Write(o.Bytes())
			mu.Unlock()
		}(part)
	}
	wg.Wait()
	files, _ := filepath.Glob(filepath.Join(work, "race*"))
	reports := 0
	for _, f := range files {
		b, _ := os.ReadFile(f)
		for _, blk := range strings.Split(string(b), "WARNING: DATA RACE")[1:] {
			reports++
			// signature: the yqlib functions that perform the *write* accesses of the report (the shared location's writers)
			seen := map[string]bool{}
			var fr []string
			for _, sec := range regexp.MustCompile(`(?m)^(Write at|Previous write at|Read at|Previous read at)`).Split(blk, -1)[1:] {
				_ = sec
			}
			secRe := regexp.MustCompile(`(?s)(Write at|Previous write at|Read at|Previous read at)[^\n]*\n(.*?)(?:\n\n|$)`)
			for _, m := range secRe.FindAllStringSubmatch(blk, -1) {
				fm := regexp.MustCompile(`github\.com/mikefarah/yq/v4/pkg/yqlib\.([^\s(]+)\(`).FindStringSubmatch(m[2])
				if fm == nil {
					continue
				}
				name := fm[1]
				if strings.Contains(m[1], "rite") {
					name = "W:" + name
				} else {
					continue
				}
				if !seen[name] {
					seen[name] = true
					fr = append(fr, name)
				}
			}
			sort.Strings(fr)
			c.Violation("race/"+strings.Join(fr, "|"), 9e9, c18Case{Kind: "race"}, "race detector report (free-running goroutines, sampled):\n"+clip(blk, 1800))
		}
	}
	c.Extra("race_pass", map[string]interface{}{"runs": reps + " repetitions per pair", "exhaustive": false, "reports": reports, "output": clip(so.String(), 300)})
	return c.apply
}

// c18Deferred records what the race pass wants to report; applied to the check's context by the main goroutine.
type c18Deferred struct {
	acts *[]func(c *fw.Ctx)
	ctx  *fw.Ctx
	mu   sync.Mutex
}

func (d *c18Deferred) Note(s string) {
	d.mu.Lock()
	defer d.mu.Unlock()
	*d.acts = append(*d.acts, func(c *fw.Ctx) { c.Note(s) })
}
func (d *c18Deferred) Extra(k string, v interface{}) {
	*d.acts = append(*d.acts, func(c *fw.Ctx) { c.Res.Extra[k] = v })
}
func (d *c18Deferred) Violation(sig string, order int64, cs interface{}, detail string) {
	*d.acts = append(*d.acts, func(c *fw.Ctx) { c.Violation(sig, order, cs, detail) })
}
func (d *c18Deferred) apply() {
	for _, a := range *d.acts {
		a(d.ctx)
	}
}

// C18Race is run by the -race build: every pair of events concurrently, free-running.
func C18Race(reps, part, parts int) int {
	dir, err := c18PrepareDir()
	if err != nil {
		return 3
	}
	defer os.RemoveAll(dir)
	al := c18Alphabet()
	mism := 0
	pair := 0
	for ai, a := range al {
		for _, b := range al[ai:] { // both run concurrently: unordered pairs
			pair++
			if pair%parts != part {
				continue
			}
			for r := 0; r < reps; r++ {
				var wg sync.WaitGroup
				for _, e := range []c18Event{a, b} {
					wg.Add(1)
					go func(e c18Event) {
						defer wg.Done()
						_ = c18RunEvent(e, newC18Shared())
					}(e)
				}
				wg.Wait()
			}
		}
	}
	// lazy parser initialisation from two goroutines
	for r := 0; r < reps; r++ {
		yqlib.ExpressionParser = nil
		var wg sync.WaitGroup
		for i := 0; i < 2; i++ {
			wg.Add(1)
			go func() { defer wg.Done(); yqlib.InitExpressionParser(); _ = c18RunEvent(al[0], newC18Shared()) }()
		}
		wg.Wait()
	}
	fmt.Println("race pass done, mismatches", mism)
	return 0
}

func c18Replay(raw json.RawMessage) (bool, string, error) {
	var cs c18Case
	if err := json.Unmarshal(raw, &cs); err != nil {
		return false, "", err
	}
	switch cs.Kind {
	case "history":
		outs, err := c18RunHistory(cs.Hist)
		if err != nil {
			return true, err.Error(), nil
		}
		for i, e := range cs.Hist {
			solo, err := c18RunHistory([]c18Event{e})
			if err != nil {
				return false, "", err
			}
			if !c18SameModuloSeparator(outs[i], solo[0]) {
				return true, fmt.Sprintf("event %d (%s) gives %q, alone %q", i, e.Name, outs[i], solo[0]), nil
			}
		}
		return false, "", nil
	case "schedule":
		dir, err := c18PrepareDir()
		if err != nil {
			return false, "", err
		}
		defer os.RemoveAll(dir)
		x1 := c18Execute(cs.Threads, cs.Schedule, false)
		x2 := c18Execute(cs.Threads, cs.Schedule, false)
		if strings.Join(x1.outs, "\x00") != strings.Join(x2.outs, "\x00") {
			return false, "replaying the schedule twice gives different observations (harness does not own all nondeterminism)", nil
		}
		for i, e := range cs.Threads {
			solo := c18Execute([]c18Event{e}, nil, false).outs[0]
			if x1.outs[i] != solo {
				return true, fmt.Sprintf("thread %d (%s) returns %q under schedule %v, alone %q", i, e.Name, x1.outs[i], cs.Schedule, solo), nil
			}
		}
		return false, "", nil
	case "race":
		return true, "race reports are not replayed (sampled pass)", nil
	}
	return false, "", nil
}

func init() {
	registerLater(func() {
		fw.Register(&fw.Check{
			ID: "C18", Level: "model_checking",
			Rule: "(A) explicit-state over histories: every pair of 96 evaluation events (48 events built around each piece of state that outlives an evaluation - operator descriptors rewritten by the lexer, decoder singletons inside lexer rules, literals owned by a parsed tree, handlers that write into the tree, anchor maps, printer and decoder position state, every encoder behind a reused printer, both assignment forms of the assignable operators - x {fresh, shared library objects}), every revisit A,B,A where A reuses the objects it retained, and every triple over the core events, each history in a fresh process; every event must yield the bytes it yields first in a fresh process (modulo the document separator of a reused printer). " +
				"(B) stateless schedule exploration: two evaluations on separate objects under a cooperative scheduler that owns all yield hooks; DFS over every choice sequence within the pre-emption bound; each thread must return its solo bytes; replay divergence is an error. (C) auxiliary sampled race-detector pass. states = histories, transitions = schedule points; non-trivial = distinct history or thread pair",
			Assumptions: []string{"interleavings are exhaustive at the granularity of the hooked accesses (appendix B); unsynchronised accesses elsewhere are only caught by the sampled race pass", "now/shuffle/env operators excluded as the statement excludes them"},
			Budget: func(t string) time.Duration {
				if t == "thorough" {
					return 40 * time.Minute
				}
				return 5 * time.Minute
			},
			Run: c18Run, Replay: c18Replay,
		})
	})
}
