package checks

import (
	"encoding/base64"
	"encoding/json"
	"fmt"
	"net/url"
	"os"
	"path/filepath"
	"regexp"
	"strings"
	"time"

	"verif/mc/internal/fw"
	"verif/mc/internal/impl"
	"verif/mc/internal/val"
)

// C19 – exit status and output tell the truth about what happened. Configuration product on the real binary.
// Per-stage facts (does every document decode? does the expression evaluate? which results are produced?) are established
// in-process with the library; the binary's exit status, stderr and stdout are then judged against the command's contract.

var c19Docs = []struct{ name, text string }{
	{"map", "a: v1\nb: 42\nc: {d: leaf3}\n"},
	{"scalar", "sc7\n"},
	{"null", "null\n"},
	{"false", "false\n"},
	{"false-capitalised", "a: False\nc: FALSE\n"},
	{"bad", "a: [\n"},
	{"seq-of-maps", "- {a: v1, b: 42}\n- {a: w2, b: {n: deep9}}\n"},
	{"attribute-key-with-a-map", "r:\n  +@id: {deep8: leaf9}\n  c: t7\n"}, // what the XML encoder takes for an attribute holds a map
	{"holds-infinity", "x: .inf\nb: lf7\n"},                               // a float that JSON cannot hold beside a scalar that every format can
	{"seq-mixed", "- {a: v1, b: 42}\n- lone8\n- [k5, {z: q6}]\n"},         // rows of different kinds after a first row that is a map
}

var c19Exprs = []string{".", ".a", ".missing", "select(.a)", "false", "null", `select(document_index == 1) | error("boom")`, ".a + {}", "[.a]", ".a = (", ".c", ".[]"}

var c19Formats = []string{"yaml", "json", "props", "csv", "tsv", "xml", "base64", "uri", "toml", "shell", "lua"}

var c19FlagSets = [][]string{nil, {"-e"}, {"-e", "-N"}, {"-r"}, {"-0"}, {"-e", "-r"}, {"-N"}, {"-C"}}

var c19Ansi = regexp.MustCompile("\x1b\\[[0-9;]*m")

type c19Case struct {
	Section string   `json:"section"`
	Files   [][]int  `json:"files,omitempty"`
	Expr    string   `json:"expr,omitempty"`
	Format  string   `json:"format,omitempty"`
	Flags   []string `json:"flags,omitempty"`
	Extra   []string `json:"extra,omitempty"`
}

type c19Facts struct {
	parseOK   bool
	failed    bool // some document fails to decode or evaluate
	results   []*val.V
	leaves    []string
	anyTruthy bool
}

func c19FileText(docs []int) string {
	var parts []string
	for _, d := range docs {
		parts = append(parts, c19Docs[d].text)
	}
	return strings.Join(parts, "---\n")
}

var c19FactCache = map[string]*c19Facts{}

func c19GetFacts(files [][]int, expr string) *c19Facts {
	key := fmt.Sprintf("%v|%s", files, expr)
	if f, ok := c19FactCache[key]; ok {
		return f
	}
	f := &c19Facts{}
	c19FactCache[key] = f
	parsed, err, pan := impl.Parse(expr)
	if err != nil || pan != nil {
		return f
	}
	f.parseOK = true
	var collect func(v *val.V)
	collect = func(v *val.V) {
		if v.IsScalar() {
			if v.K == val.Str || v.K == val.Int {
				f.leaves = append(f.leaves, v.S)
			}
			return
		}
		for _, c := range v.Vals {
			collect(c)
		}
	}
	for fi, file := range files {
		docs, derr, dpan := impl.DecodeYAML(c19FileText(file))
		for di, d := range docs {
			d.SetDocument(uint(di))
			d.SetFileIndex(fi)
			res, eerr, epan := impl.Eval(parsed, d)
			if eerr != nil || epan != nil {
				f.failed = true
				return f
			}
			for _, r := range res {
				v := impl.ToV(r)
				f.results = append(f.results, v)
				collect(v)
				if v.K != val.Null && !(v.K == val.Bool && strings.EqualFold(v.S, "false")) {
					f.anyTruthy = true
				}
			}
		}
		if derr != nil || dpan != nil {
			f.failed = true
			return f
		}
	}
	return f
}

// c19Check runs one configuration; returns mismatch kind/detail.
func c19Check(work string, cs c19Case) (kind, detail, outcome string) {
	dir, err := os.MkdirTemp(work, "r-")
	if err != nil {
		return "harness", err.Error(), ""
	}
	defer os.RemoveAll(dir)
	switch cs.Section {
	case "product":
		var names []string
		for i, f := range cs.Files {
			n := fmt.Sprintf("in%d.yaml", i)
			os.WriteFile(filepath.Join(dir, n), []byte(c19FileText(f)), 0o644)
			names = append(names, n)
		}
		args := append([]string{"-o=" + cs.Format}, cs.Flags...)
		args = append(args, cs.Expr)
		args = append(args, names...)
		out, serr, exit, err := c10RunYq(dir, args...)
		if err != nil {
			return "hang", err.Error(), ""
		}
		outcome = fmt.Sprintf("exit=%d out=%d err=%d", exit, len(out), len(serr))
		facts := c19GetFacts(cs.Files, cs.Expr)
		hasE := false
		for _, fl := range cs.Flags {
			if fl == "-e" {
				hasE = true
			}
		}
		if exit != 0 && strings.TrimSpace(serr) == "" {
			return "silent-failure", fmt.Sprintf("exit %d with nothing on stderr", exit), outcome
		}
		if !facts.parseOK || facts.failed {
			if exit == 0 {
				what := "the expression does not parse"
				if facts.parseOK {
					what = "a document fails to decode or to evaluate"
				}
				return "exit0-despite-failure", what + " but yq exits 0; stdout: " + clip(out, 200), outcome
			}
			return "", "", outcome
		}
		if exit == 0 {
			// nothing that was produced may be silently dropped or emptied
			text := c19Ansi.ReplaceAllString(out, "") // -C: colour escapes are not content
			enc := func(leaf string) string { return leaf }
			switch cs.Format {
			case "base64":
				enc = func(leaf string) string { return base64.StdEncoding.EncodeToString([]byte(leaf)) }
			case "uri":
				enc = url.QueryEscape
			}
			for _, leaf := range facts.leaves {
				if !strings.Contains(text, enc(leaf)) {
					return "result-dropped", fmt.Sprintf("exit 0 but the scalar %q of a result does not appear in the output:\n%s", leaf, clip(out, 300)), outcome
				}
			}
			if len(facts.results) > 0 && len(facts.leaves) > 0 && strings.TrimSpace(strings.ReplaceAll(out, "\x00", "")) == "" {
				return "empty-output", "exit 0 with results but empty output", outcome
			}
			if hasE && !facts.anyTruthy {
				return "e-flag", "-e given, every result is null/false or there is none, yet exit 0", outcome
			}
		} else if hasE {
			// the only legitimate reasons for failure here: -e with no truthy result, or an encoding error
			if !facts.anyTruthy {
				return "", "", outcome
			}
			// results exist and some is truthy: the same command without -e must fail as well (encoding error), otherwise -e lied
			var noE []string
			for _, fl := range cs.Flags {
				if fl != "-e" {
					noE = append(noE, fl)
				}
			}
			a2 := append([]string{"-o=" + cs.Format}, noE...)
			a2 = append(a2, cs.Expr)
			a2 = append(a2, names...)
			_, _, exit2, _ := c10RunYq(dir, a2...)
			if exit2 == 0 {
				return "e-flag", fmt.Sprintf("-e given and a result is neither null nor false, exit %d; without -e the command exits 0", exit), outcome
			}
		}
		return "", "", outcome
	case "split":
		// -s: every result goes to a file of its own, named after its position; exit 0 promises that each file holds its result
		var names []string
		for i, f := range cs.Files {
			n := fmt.Sprintf("in%d.yaml", i)
			os.WriteFile(filepath.Join(dir, n), []byte(c19FileText(f)), 0o644)
			names = append(names, n)
		}
		args := append([]string{"-o=" + cs.Format, "-s", `"res" + $index`, cs.Expr}, names...)
		_, serr, exit, err := c10RunYq(dir, args...)
		if err != nil {
			return "hang", err.Error(), ""
		}
		outcome = fmt.Sprintf("exit=%d err=%d", exit, len(serr))
		facts := c19GetFacts(cs.Files, cs.Expr)
		if exit != 0 && strings.TrimSpace(serr) == "" {
			return "silent-failure", fmt.Sprintf("exit %d with nothing on stderr", exit), outcome
		}
		if !facts.parseOK || facts.failed {
			if exit == 0 {
				return "exit0-despite-failure", "a document fails to decode or to evaluate, or the expression does not parse, but yq -s exits 0", outcome
			}
			return "", "", outcome
		}
		if exit == 0 {
			ext := map[string]string{"yaml": "yml", "json": "json"}[cs.Format]
			for i, r := range facts.results {
				b, rerr := os.ReadFile(filepath.Join(dir, fmt.Sprintf("res%d.%s", i, ext)))
				if rerr != nil {
					return "split-file-missing", fmt.Sprintf("exit 0 but result %d of %d has no file: %v", i, len(facts.results), rerr), outcome
				}
				var leaves []string
				var collect func(v *val.V)
				collect = func(v *val.V) {
					if v.IsScalar() {
						if v.K == val.Str || v.K == val.Int {
							leaves = append(leaves, v.S)
						}
						return
					}
					for _, c := range v.Vals {
						collect(c)
					}
				}
				collect(r)
				for _, leaf := range leaves {
					if !strings.Contains(string(b), leaf) {
						return "result-dropped", fmt.Sprintf("exit 0 but the scalar %q of result %d is not in its file, which holds %q", leaf, i, clip(string(b), 200)), outcome
					}
				}
			}
		}
		return "", "", outcome
	case "null-input":
		// -n: no input is read – stdin holds garbage that would not decode
		args := append([]string{"-n"}, cs.Extra...)
		out, serr, exit, _ := c19RunWithStdin(dir, "a: [\n", args...)
		outcome = fmt.Sprintf("exit=%d", exit)
		if exit != 0 || strings.TrimSpace(out) != cs.Expr {
			return "null-input", fmt.Sprintf("yq -n %v with undecodable stdin: exit %d stdout %q stderr %q (expected %q)", cs.Extra, exit, out, serr, cs.Expr), outcome
		}
		return "", "", outcome
	case "in-place":
		// -i changes where the result goes, not what the exit status and stderr say
		n := "in.yaml"
		text := c19FileText(cs.Files[0])
		os.WriteFile(filepath.Join(dir, n), []byte(text), 0o644)
		_, rerr, rexit, _ := c10RunYq(dir, append(append([]string{}, cs.Flags...), cs.Expr, n)...)
		_, ierr, iexit, _ := c10RunYq(dir, append(append([]string{"-i"}, cs.Flags...), cs.Expr, n)...)
		after, _ := os.ReadFile(filepath.Join(dir, n))
		outcome = fmt.Sprintf("exit=%d", iexit)
		if (rexit == 0) != (iexit == 0) {
			return "in-place-exit", fmt.Sprintf("yq %v %q exits %d (%s) but with -i it exits %d (%s)", cs.Flags, cs.Expr, rexit, clip(rerr, 100), iexit, clip(ierr, 100)), outcome
		}
		if iexit != 0 && strings.TrimSpace(ierr) == "" {
			return "silent-failure", fmt.Sprintf("-i: exit %d with nothing on stderr", iexit), outcome
		}
		if iexit != 0 && string(after) != text {
			return "in-place-modified-on-failure", fmt.Sprintf("-i %v %q exits %d but the file now holds %q", cs.Flags, cs.Expr, iexit, clip(string(after), 200)), outcome
		}
		return "", "", outcome
	case "auto-format-stdin":
		// the first input is stdin (`-`), which has no extension: both formats are YAML whatever the later file is called
		n := "later." + cs.Extra[0]
		os.WriteFile(filepath.Join(dir, n), []byte(`{"b": 42}`+"\n"), 0o644)
		auto, aerr, aexit, _ := c19RunWithStdin(dir, "a: v1\n", cs.Expr, "-", n)
		expl, eerr, eexit, _ := c19RunWithStdin(dir, "a: v1\n", "-p=yaml", "-o=yaml", cs.Expr, "-", n)
		outcome = fmt.Sprintf("exit=%d", aexit)
		if aexit != eexit || auto != expl {
			return "auto-format", fmt.Sprintf("yq %s - %s: automatic choice gives exit %d %q (%s); -p=yaml -o=yaml gives exit %d %q (%s)", cs.Expr, n, aexit, clip(auto, 150), clip(aerr, 100), eexit, clip(expl, 150), clip(eerr, 100)), outcome
		}
		return "", "", outcome
	case "auto-format":
		// cs.Extra = [content-kind..., ext1, (ext2)]: the first file's extension names both formats
		exts := cs.Extra
		var names []string
		for i, e := range exts {
			n := fmt.Sprintf("f%d.%s", i, e)
			os.WriteFile(filepath.Join(dir, n), []byte(c19Content(exts[0])), 0o644) // all files hold the first format's syntax
			names = append(names, n)
		}
		fm := c19FormatOfExt(exts[0])
		auto, aerr, aexit, _ := c10RunYq(dir, append([]string{cs.Expr}, names...)...)
		expl, eerr, eexit, _ := c10RunYq(dir, append([]string{"-p=" + fm, "-o=" + fm, cs.Expr}, names...)...)
		outcome = fmt.Sprintf("exit=%d", aexit)
		if aexit != eexit || auto != expl {
			return "auto-format", fmt.Sprintf("files %v: automatic choice gives exit %d %q (%s); -p=%s -o=%s gives exit %d %q (%s)", names, aexit, clip(auto, 150), clip(aerr, 100), fm, fm, eexit, clip(expl, 150), clip(eerr, 100)), outcome
		}
		_ = eerr
		return "", "", outcome
	}
	return "harness", "unknown section", ""
}

func c19FormatOfExt(ext string) string {
	switch ext {
	case "yaml", "yml", "txt":
		return "yaml"
	case "properties":
		return "props"
	}
	return ext
}

func c19Content(ext string) string {
	switch c19FormatOfExt(ext) {
	case "json":
		return `{"a": "v1", "b": 42}` + "\n"
	case "xml":
		return "<root><a>v1</a><b>42</b></root>\n"
	case "csv":
		return "a,b\nv1,42\n"
	case "tsv":
		return "a\tb\nv1\t42\n"
	case "toml":
		return "a = \"v1\"\nb = 42\n"
	case "props":
		return "a = v1\nb = 42\n"
	case "lua":
		return "return {\n\ta = \"v1\";\n\tb = 42;\n};\n"
	}
	return "a: v1\nb: 42\n"
}

func c19RunWithStdin(dir, stdin string, args ...string) (string, string, int, error) {
	// same as c10RunYq but with a given stdin
	f := filepath.Join(dir, "stdin.txt")
	os.WriteFile(f, []byte(stdin), 0o644)
	sh := fmt.Sprintf("exec %q \"$@\" < %q", yqBin(), f)
	cmdArgs := append([]string{"-c", sh, "sh"}, args...)
	return c10RunCmd(dir, "/bin/sh", cmdArgs...)
}

func c19Run(c *fw.Ctx) error {
	work, err := os.MkdirTemp("", "mc-c19-")
	if err != nil {
		return err
	}
	defer os.RemoveAll(work)
	// histories: one file with 1..2 documents, two files with one document each
	var hist [][][]int
	for a := range c19Docs {
		hist = append(hist, [][]int{{a}})
	}
	for a := range c19Docs {
		for b := range c19Docs {
			// quick: the document that holds an infinity is paired with itself and with the first three documents only
			if inf, capF := len(c19Docs)-2, 4; !c.Thorough() && (a == inf || b == inf || a == capF || b == capF) && a != b && a > 2 && b > 2 {
				continue // (likewise the document with the capitalised spellings of false)
			}
			hist = append(hist, [][]int{{a, b}}, [][]int{{a}, {b}})
		}
	}
	if c.Thorough() {
		for a := range c19Docs {
			for b := range c19Docs {
				for d := range c19Docs {
					hist = append(hist, [][]int{{a, b}, {d}}, [][]int{{a}, {b, d}})
				}
			}
		}
	}
	c.Res.Bound = fmt.Sprintf("%d input histories x %d expressions x %d output formats x %d flag sets (full product; -C with the two encoders that have colours), -s with one file per result (every history of one file x 6 expressions x 2 formats), -n with undecodable stdin, automatic format choice for every extension and every pair of extensions, and with stdin as the first input; -i against the same command without it (8 documents x 8 expressions x {-, -e})", len(hist), len(c19Exprs), len(c19Formats), len(c19FlagSets))
	var idx int64
	run := func(cs c19Case, order int64) {
		idx++
		if !c.Mine(idx) || c.Expired() {
			return
		}
		kind, detail, outcome := c19Check(work, cs)
		c.Eval(1)
		c.Validated(1)
		b, _ := json.Marshal(cs)
		c.Nontrivial(string(b))
		c.Outcome(cs.Section + cs.Format + cs.Expr + strings.Join(cs.Flags, "") + outcome)
		if kind == "" {
			if idx%9001 == 11 {
				c.Sample(map[string]interface{}{"case": cs, "outcome": outcome})
			}
			return
		}
		c.Count("mismatch_"+kind, 1)
		sig := kind + "/" + cs.Format + "/" + cs.Expr
		if cs.Section != "product" {
			sig = kind + "/" + strings.Join(cs.Extra, ",")
			if cs.Section == "split" {
				sig = kind + "/-s/" + cs.Format + "/" + cs.Expr
			}
		}
		c.Violation(sig, order, cs, detail)
	}
	for hi, h := range hist {
		if len(h) == 1 && len(h[0]) == 2 || hi < len(c19Docs) {
			for _, e := range []string{".", ".[]", ".a", ".c", "select(.a)", ".. | select(tag == \"!!str\")"} {
				for _, f := range []string{"yaml", "json"} {
					run(c19Case{Section: "split", Files: h, Expr: e, Format: f, Extra: []string{"-s"}}, int64(len(h[0]))*1e6+int64(hi))
				}
			}
		}
	}
	run(c19Case{Section: "null-input", Expr: "2", Extra: []string{"1 + 1"}}, 1)
	run(c19Case{Section: "null-input", Expr: "a: 1", Extra: []string{".a = 1"}}, 2)
	run(c19Case{Section: "null-input", Expr: `{"a":1}`, Extra: []string{"-o=json", "-I=0", ".a = 1"}}, 3)
	for a := range c19Docs {
		for _, e := range []string{".", ".a", ".missing", "select(.a)", "false", "null", ".a = (", ".a = 1"} {
			for _, fl := range [][]string{nil, {"-e"}} {
				run(c19Case{Section: "in-place", Files: [][]int{{a}}, Expr: e, Flags: fl}, 5)
			}
		}
	}
	exts := []string{"yaml", "yml", "json", "xml", "csv", "tsv", "toml", "properties", "lua", "txt"}
	for _, e1 := range exts {
		run(c19Case{Section: "auto-format", Expr: ".", Extra: []string{e1}}, 10)
		run(c19Case{Section: "auto-format", Expr: ".a", Extra: []string{e1}}, 10)
		run(c19Case{Section: "auto-format-stdin", Expr: ".", Extra: []string{e1}}, 15)
		for _, e2 := range exts {
			run(c19Case{Section: "auto-format", Expr: ".", Extra: []string{e1, e2}}, 20)
		}
	}
	// the full product comes last: should the time budget end the enumeration, the small sections above are complete
	for hi, h := range hist {
		for _, e := range c19Exprs {
			for _, f := range c19Formats {
				for _, fl := range c19FlagSets {
					if len(fl) == 1 && fl[0] == "-C" && f != "yaml" && f != "json" {
						continue // the other encoders have no colours
					}
					nd := 0
					for _, x := range h {
						nd += len(x)
					}
					run(c19Case{Section: "product", Files: h, Expr: e, Format: f, Flags: fl}, int64(nd)*1e6+int64(hi))
				}
			}
		}
	}
	return nil
}

func c19Replay(raw json.RawMessage) (bool, string, error) {
	var cs c19Case
	if err := json.Unmarshal(raw, &cs); err != nil {
		return false, "", err
	}
	work, err := os.MkdirTemp("", "mc-c19-")
	if err != nil {
		return false, "", err
	}
	defer os.RemoveAll(work)
	kind, detail, _ := c19Check(work, cs)
	return kind != "", kind + ": " + detail, nil
}

func init() {
	registerLater(func() {
		fw.Register(&fw.Check{
			ID: "C19", Level: "model_checking",
			Rule: "full product of input histories (good map, scalar, null, false, undecodable, sequence of maps; one or two files) x expressions (identity, hit, miss, select, false, null, error at document 2, type error, collect, parse error, nested, splat) x every output format x flag sets over -e -N -r -0, on the real binary; " +
				"facts per stage come from the library in-process; oracle: non-zero exit <=> some stage fails or (-e and no result is neither null nor false); non-zero exit => message on stderr; exit 0 => every scalar of every result appears in the (decoded) output; -n reads no input; automatic formats = first file's extension; non-trivial = distinct configuration",
			Assumptions: []string{"whether a format *can* represent a result is not judged (no per-format table): an encoder may refuse with an error, but may not exit 0 while dropping a scalar of the result"},
			Budget: func(t string) time.Duration {
				if t == "thorough" {
					return 40 * time.Minute
				}
				return 4 * time.Minute
			},
			Run: c19Run, Replay: c19Replay,
		})
	})
}
