package checks

import (
	"fmt"
	"strings"

	"github.com/mikefarah/yq/v4/pkg/yqlib"

	"verif/mc/internal/impl"
	"verif/mc/internal/refsem"
	"verif/mc/internal/val"
)

// cmpResult is the verdict of comparing the implementation with the reference on one (expression, document) case.
type cmpResult struct {
	Kind    string // "" = agree; "undef" = reference declines; otherwise the mismatch kind
	Detail  string
	Outcome string // canonical observed outcome (for distinct-outcome counting)
	Defined bool   // reference defined a non-error, non-empty result
}

func vlist(vs []*val.V) string {
	var sb strings.Builder
	for i, v := range vs {
		if i > 0 {
			sb.WriteString(" ; ")
		}
		sb.WriteString(v.String())
	}
	return sb.String()
}

// compareCase runs the real evaluator (sequence-mode style: one document as the context) and the reference.
func compareCase(e *refsem.E, parsed *yqlib.ExpressionNode, doc *val.V, checkDoc bool) cmpResult {
	return compareCaseDocs(e, parsed, []*val.V{doc}, false, checkDoc)
}

// compareCaseDocs: the context is one node per document; together = the documents are evaluated together (eval-all).
func compareCaseDocs(e *refsem.E, parsed *yqlib.ExpressionNode, docs []*val.V, together bool, checkDoc bool) cmpResult {
	var roots []*yqlib.CandidateNode
	var refDocs []*val.V
	for i, d := range docs {
		n := impl.Doc(d)
		if together {
			n.EvaluateTogether = true
			n.SetDocument(uint(i))
		}
		roots = append(roots, n)
		refDocs = append(refDocs, d.Copy())
	}
	res, err, pan := impl.Eval(parsed, roots...)
	var obs string
	var got []*val.V
	switch {
	case pan != nil:
		obs = fmt.Sprintf("PANIC %v", pan)
	case err != nil:
		obs = "ERROR"
	default:
		for _, r := range res {
			got = append(got, impl.ToV(r))
		}
		obs = vlist(got)
	}
	var out refsem.Outcome
	if together {
		out = refsem.RunTogether(e, refDocs)
	} else {
		out = refsem.Run(e, refDocs)
	}
	if out.Undef != "" {
		return cmpResult{Kind: "undef", Detail: out.Undef, Outcome: obs}
	}
	if pan != nil {
		return cmpResult{Kind: "panic", Detail: fmt.Sprintf("implementation panicked: %v; reference: %s", pan, refText(out)), Outcome: obs}
	}
	if out.Err != "" {
		if err == nil {
			return cmpResult{Kind: "missing-error", Detail: fmt.Sprintf("reference defines an error (%s) but yq returned [%s]", out.Err, obs), Outcome: obs}
		}
		return cmpResult{Outcome: obs}
	}
	if err != nil {
		return cmpResult{Kind: "unexpected-error", Detail: fmt.Sprintf("yq error %q; reference results [%s]", err.Error(), vlist(out.Results)), Outcome: obs}
	}
	want := vlist(out.Results)
	if len(got) != len(out.Results) {
		return cmpResult{Kind: "count", Detail: fmt.Sprintf("yq yields %d results [%s]; reference %d [%s]", len(got), obs, len(out.Results), want), Outcome: obs}
	}
	if obs != want {
		return cmpResult{Kind: "value", Detail: fmt.Sprintf("yq [%s]; reference [%s]", obs, want), Outcome: obs}
	}
	if checkDoc {
		for i, root := range roots {
			after := impl.ToV(root).String()
			if after != refDocs[i].String() {
				return cmpResult{Kind: "docstate", Detail: fmt.Sprintf("document afterwards: yq %s; reference %s", after, refDocs[i].String()), Outcome: obs}
			}
		}
	}
	return cmpResult{Outcome: obs, Defined: len(out.Results) > 0}
}

func refText(o refsem.Outcome) string {
	if o.Err != "" {
		return "error(" + o.Err + ")"
	}
	return "[" + vlist(o.Results) + "]"
}

// reduceCase shrinks a failing (expression, document) pair greedily while the same mismatch kind persists.
// The reduced expression is the mechanical signature of the violation (DESIGN.md: culprit-atom reduction).
func reduceCase(e *refsem.E, doc *val.V, kind string, checkDoc bool) (*refsem.E, *val.V) {
	still := func(e2 *refsem.E, d2 *val.V) bool {
		p, err, pan := impl.Parse(e2.String())
		if err != nil || pan != nil {
			return false
		}
		return compareCase(e2, p, d2, checkDoc).Kind == kind
	}
	budget := 400
	changed := true
	for changed && budget > 0 {
		changed = false
		// expression: replace any sub-expression by one of its children or by `.`
		var try func(root *refsem.E, path []int) bool
		get := func(root *refsem.E, path []int) *refsem.E {
			n := root
			for _, i := range path {
				n = n.A[i]
			}
			return n
		}
		replace := func(root *refsem.E, path []int, with *refsem.E) *refsem.E {
			if len(path) == 0 {
				return with
			}
			var rec func(n *refsem.E, p []int) *refsem.E
			rec = func(n *refsem.E, p []int) *refsem.E {
				c := *n
				c.A = append([]*refsem.E{}, n.A...)
				if len(p) == 1 {
					c.A[p[0]] = with
				} else {
					c.A[p[0]] = rec(n.A[p[0]], p[1:])
				}
				return &c
			}
			return rec(root, path)
		}
		try = func(root *refsem.E, path []int) bool {
			n := get(root, path)
			var cands []*refsem.E
			cands = append(cands, n.A...)
			if n.Op != "self" {
				cands = append(cands, refsem.Leaf("self"))
			}
			for _, cnd := range cands {
				if budget <= 0 {
					return false
				}
				budget--
				e2 := replace(root, path, cnd)
				if e2.Size() < root.Size() || (e2.Size() == root.Size() && cnd.Op == "self" && n.Op != "self" && len(n.A) == 0) {
					if still(e2, doc) {
						e = e2
						return true
					}
				}
			}
			for i := range n.A {
				if try(root, append(append([]int{}, path...), i)) {
					return true
				}
			}
			return false
		}
		if try(e, nil) {
			changed = true
			continue
		}
		// document: replace by a child, or drop one element
		var dc []*val.V
		dc = append(dc, doc.Vals...)
		for i := range doc.Vals {
			d2 := doc.Copy()
			d2.Vals = append(d2.Vals[:i:i], d2.Vals[i+1:]...)
			if doc.K == val.Map {
				d2.Keys = append(d2.Keys[:i:i], d2.Keys[i+1:]...)
			}
			dc = append(dc, d2)
		}
		for _, d2 := range dc {
			if budget <= 0 {
				break
			}
			budget--
			if still(e, d2) {
				doc = d2
				changed = true
				break
			}
		}
	}
	return e, doc
}
