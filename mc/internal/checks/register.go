// Package checks holds one file per property check; each registers itself with fw.
package checks

var later []func()

func registerLater(f func()) { later = append(later, f) }

// RegisterAll registers every check (called once from main after impl.Init()).
func RegisterAll() {
	for _, f := range later {
		f()
	}
}
