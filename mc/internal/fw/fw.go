// Package fw is the plumbing shared by every check: process sharding, counters,
// violation signatures, known-findings, replay files and evidence.
package fw

import (
	"bufio"
	"encoding/binary"
	"encoding/json"
	"fmt"
	"hash/fnv"
	"os"
	"os/exec"
	"path/filepath"
	"regexp"
	"sort"
	"strconv"
	"strings"
	"sync"
	"time"
)

// VerifDir is where MANIFEST.json, evidence/, replays/ and KNOWN_FINDINGS.txt live.
var VerifDir = func() string {
	if d := os.Getenv("VERIF_DIR"); d != "" {
		return d
	}
	return "/verif"
}()

// Violation is one failing case, small enough to be replayed on its own.
type Violation struct {
	Sig    string          `json:"sig"`    // mechanical signature (see DESIGN.md section 2)
	Case   json.RawMessage `json:"case"`   // check-specific, consumed by Check.Replay
	Detail string          `json:"detail"` // expected vs observed, human readable
	Order  int64           `json:"order"`  // position in the canonical enumeration (smaller = simpler)
}

// Result is what one worker (one shard) reports.
type Result struct {
	Evaluations int64                  `json:"evaluations"`
	States      int64                  `json:"states"`
	Transitions int64                  `json:"transitions"`
	Traces      int64                  `json:"traces"`
	Counters    map[string]int64       `json:"counters"`
	Nontrivial  []uint64               `json:"nontrivial"` // hashes of distinct non-trivial cases (capped)
	NontrivialN int64                  `json:"nontrivial_n"`
	Outcomes    []uint64               `json:"outcomes"` // hashes of distinct observed outcomes (capped)
	OutcomesN   int64                  `json:"outcomes_n"`
	Viol        map[string][]Violation `json:"viol"` // first few per signature
	ViolN       map[string]int64       `json:"viol_n"`
	Samples     []json.RawMessage      `json:"samples"`
	Exhaustive  bool                   `json:"exhaustive"`
	Bound       string                 `json:"bound"`
	Extra       map[string]interface{} `json:"extra"`
	Notes       []string               `json:"notes"`
	Sets        map[string][]string    `json:"sets"` // named small string sets (unioned by the parent)
}

const hashCap = 4_000_000

// Ctx is handed to a check's Run function inside a worker.
type Ctx struct {
	ID       string
	Tier     string
	Shard    int
	NShards  int
	Seed     int64
	Deadline time.Time
	Res      *Result
	nontriv  map[uint64]struct{}
	outcomes map[uint64]struct{}
	sets     map[string]map[string]struct{}
	mu       sync.Mutex
	expired  bool
}

func H(s string) uint64 { h := fnv.New64a(); h.Write([]byte(s)); return h.Sum64() }

func (c *Ctx) Thorough() bool { return c.Tier == "thorough" }

// Mine tells whether enumeration index i belongs to this shard.
func (c *Ctx) Mine(i int64) bool { return int(i%int64(c.NShards)) == c.Shard }

// Expired reports whether the internal time budget is used up; the check then stops,
// and the run is reported with exhaustive:false (a budget is never an oracle).
func (c *Ctx) Expired() bool {
	if c.expired {
		return true
	}
	if time.Now().After(c.Deadline) {
		c.expired = true
		c.Res.Exhaustive = false
		c.Note("time budget reached: enumeration stopped early")
	}
	return c.expired
}

func (c *Ctx) Note(s string) {
	for _, n := range c.Res.Notes {
		if n == s {
			return
		}
	}
	c.Res.Notes = append(c.Res.Notes, s)
}
func (c *Ctx) Count(name string, n int64) { c.Res.Counters[name] += n }
func (c *Ctx) Eval(n int64)               { c.Res.Evaluations += n; c.Res.Transitions += n }
func (c *Ctx) Validated(n int64)          { c.Res.Traces += n }
func (c *Ctx) Nontrivial(key string) {
	h := H(key)
	if _, ok := c.nontriv[h]; ok {
		return
	}
	if len(c.nontriv) < hashCap {
		c.nontriv[h] = struct{}{}
	}
	c.Res.NontrivialN++
}
func (c *Ctx) Outcome(key string) {
	h := H(key)
	if _, ok := c.outcomes[h]; ok {
		return
	}
	if len(c.outcomes) < hashCap {
		c.outcomes[h] = struct{}{}
		c.Res.OutcomesN++
	}
}
func (c *Ctx) SetAdd(set, item string) {
	m := c.sets[set]
	if m == nil {
		m = map[string]struct{}{}
		c.sets[set] = m
	}
	m[item] = struct{}{}
}
func (c *Ctx) Sample(v interface{}) {
	if len(c.Res.Samples) >= 6 {
		return
	}
	b, _ := json.Marshal(v)
	c.Res.Samples = append(c.Res.Samples, b)
}
func (c *Ctx) Violation(sig string, order int64, cse interface{}, detail string) {
	c.Res.ViolN[sig]++
	l := c.Res.Viol[sig]
	if len(l) >= 3 {
		// keep the smallest orders
		if order >= l[len(l)-1].Order {
			return
		}
		l = l[:len(l)-1]
	}
	b, _ := json.Marshal(cse)
	if len(detail) > 1500 {
		detail = detail[:1500] + "…"
	}
	l = append(l, Violation{Sig: sig, Case: b, Detail: detail, Order: order})
	sort.SliceStable(l, func(i, j int) bool { return l[i].Order < l[j].Order })
	c.Res.Viol[sig] = l
}

// Check is one registered property check.
type Check struct {
	ID          string
	Level       string // evidence level
	Rule        string
	Assumptions []string
	// Budget returns the internal wall-clock budget per tier.
	Budget func(tier string) time.Duration
	Run    func(c *Ctx) error
	// Replay re-executes one case without the explorer; returns whether it still violates.
	Replay func(cse json.RawMessage) (violated bool, detail string, err error)
	// Shards overrides the number of worker processes (0 = number of cores, capped at 16).
	Shards func(tier string) int
	// Prepare runs once in the parent before the workers (e.g. build a binary); optional.
	Prepare func(tier string) error
}

var registry = map[string]*Check{}

func Register(c *Check)    { registry[c.ID] = c }
func Get(id string) *Check { return registry[id] }
func IDs() []string {
	var ids []string
	for k := range registry {
		ids = append(ids, k)
	}
	sort.Strings(ids)
	return ids
}

func newResult() *Result {
	return &Result{Counters: map[string]int64{}, Viol: map[string][]Violation{}, ViolN: map[string]int64{}, Exhaustive: true, Extra: map[string]interface{}{}, Sets: map[string][]string{}}
}

// RunWorker executes one shard and writes its Result as JSON to outPath.
func RunWorker(id, tier string, shard, nshards int, seed int64, budget time.Duration, outPath string) error {
	ck := Get(id)
	if ck == nil {
		return fmt.Errorf("unknown check %s", id)
	}
	c := &Ctx{ID: id, Tier: tier, Shard: shard, NShards: nshards, Seed: seed, Deadline: time.Now().Add(budget), Res: newResult(),
		nontriv: map[uint64]struct{}{}, outcomes: map[uint64]struct{}{}, sets: map[string]map[string]struct{}{}}
	if err := ck.Run(c); err != nil {
		return err
	}
	for h := range c.nontriv {
		c.Res.Nontrivial = append(c.Res.Nontrivial, h)
	}
	for h := range c.outcomes {
		c.Res.Outcomes = append(c.Res.Outcomes, h)
	}
	for k, m := range c.sets {
		for s := range m {
			c.Res.Sets[k] = append(c.Res.Sets[k], s)
		}
	}
	f, err := os.Create(outPath)
	if err != nil {
		return err
	}
	w := bufio.NewWriter(f)
	if err := json.NewEncoder(w).Encode(c.Res); err != nil {
		return err
	}
	w.Flush()
	return f.Close()
}

type knownFinding struct {
	Prop, Sig, Text string
	Prefix          bool
}

func loadKnown() []knownFinding {
	var out []knownFinding
	b, err := os.ReadFile(filepath.Join(VerifDir, "KNOWN_FINDINGS.txt"))
	if err != nil {
		return nil
	}
	for _, line := range strings.Split(string(b), "\n") {
		line = strings.TrimSpace(line)
		if !strings.HasPrefix(line, "finding:") {
			continue
		}
		rest := strings.TrimSpace(strings.TrimPrefix(line, "finding:"))
		// finding: property=C16 sig=<sig without spaces> <text>
		f := strings.SplitN(rest, " ", 3)
		if len(f) < 2 || !strings.HasPrefix(f[0], "property=") || !strings.HasPrefix(f[1], "sig=") {
			continue
		}
		k := knownFinding{Prop: strings.TrimPrefix(f[0], "property="), Sig: strings.TrimPrefix(f[1], "sig=")}
		if len(f) == 3 {
			k.Text = f[2]
		}
		out = append(out, k)
	}
	return out
}

// SigEscape makes a signature a single token (no spaces) so that it can be listed in KNOWN_FINDINGS.txt.
func SigEscape(s string) string {
	s = strings.ReplaceAll(s, " ", "_")
	s = strings.ReplaceAll(s, "\n", "\\n")
	s = strings.ReplaceAll(s, "\t", "\\t")
	return s
}

// RunParent shards the check over worker processes, merges, classifies, writes evidence; returns the exit code.
func RunParent(id, tier string, seed int64) int {
	start := time.Now()
	ck := Get(id)
	if ck == nil {
		fmt.Fprintf(os.Stderr, "unknown check %s\n", id)
		return 2
	}
	if ck.Prepare != nil {
		if err := ck.Prepare(tier); err != nil {
			fmt.Fprintf(os.Stderr, "HARNESS-ERROR prepare: %v\n", err)
			return 2
		}
	}
	n := 16
	if ck.Shards != nil {
		if k := ck.Shards(tier); k > 0 {
			n = k
		}
	}
	if e := os.Getenv("VERIF_SHARDS"); e != "" {
		if k, err := strconv.Atoi(e); err == nil && k > 0 {
			n = k
		}
	}
	budget := 10 * time.Minute
	if ck.Budget != nil {
		budget = ck.Budget(tier)
	}
	if e := os.Getenv("VERIF_BUDGET_S"); e != "" {
		if k, err := strconv.Atoi(e); err == nil && k > 0 {
			budget = time.Duration(k) * time.Second
		}
	}
	work, err := os.MkdirTemp("", "mc-"+id+"-")
	if err != nil {
		fmt.Fprintln(os.Stderr, err)
		return 2
	}
	defer os.RemoveAll(work)
	exe, _ := os.Executable()
	var wg sync.WaitGroup
	errs := make([]error, n)
	outs := make([]string, n)
	for i := 0; i < n; i++ {
		wg.Add(1)
		go func(i int) {
			defer wg.Done()
			out := filepath.Join(work, fmt.Sprintf("res-%d.json", i))
			cmd := exec.Command(exe, "worker", id, "--tier", tier, "--shard", fmt.Sprintf("%d/%d", i, n), "--seed", fmt.Sprint(seed),
				"--budget", fmt.Sprint(int(budget.Seconds())), "--out", out)
			cmd.Env = append(os.Environ(), "GOMAXPROCS=2", "TZ=UTC")
			logf, _ := os.Create(filepath.Join(work, fmt.Sprintf("log-%d.txt", i)))
			cmd.Stdout = logf
			cmd.Stderr = logf
			errs[i] = cmd.Run()
			logf.Close()
			outs[i] = out
		}(i)
	}
	wg.Wait()
	merged := newResult()
	nontriv := map[uint64]struct{}{}
	outcomes := map[uint64]struct{}{}
	sets := map[string]map[string]struct{}{}
	var nontrivOver, outcomesOver int64
	for i := 0; i < n; i++ {
		if errs[i] != nil {
			lg, _ := os.ReadFile(filepath.Join(work, fmt.Sprintf("log-%d.txt", i)))
			tail := string(lg)
			if len(tail) > 3000 {
				tail = tail[len(tail)-3000:]
			}
			// A worker that dies of a Go fatal error (stack exhaustion, out of memory, concurrent map access) was killed by the code under
			// test, not by the harness: re-run the shard in careful mode (every evaluation is recorded before it starts) and report it.
			if v, ok := fatalShard(exe, work, id, tier, seed, budget, i, n, string(lg)); ok {
				merged.Viol[v.Sig] = append(merged.Viol[v.Sig], v)
				merged.ViolN[v.Sig]++
				merged.Exhaustive = false
				merged.Notes = append(merged.Notes, fmt.Sprintf("shard %d/%d died of a fatal runtime error; its cases are not counted", i, n))
				continue
			}
			fmt.Fprintf(os.Stderr, "HARNESS-ERROR worker %d/%d of %s failed: %v\n%s\n", i, n, id, errs[i], tail)
			return 2
		}
		b, err := os.ReadFile(outs[i])
		if err != nil {
			fmt.Fprintf(os.Stderr, "HARNESS-ERROR reading worker result: %v\n", err)
			return 2
		}
		var r Result
		if err := json.Unmarshal(b, &r); err != nil {
			fmt.Fprintf(os.Stderr, "HARNESS-ERROR decoding worker result: %v\n", err)
			return 2
		}
		merged.Evaluations += r.Evaluations
		merged.States += r.States
		merged.Transitions += r.Transitions
		merged.Traces += r.Traces
		for k, v := range r.Counters {
			merged.Counters[k] += v
		}
		for _, h := range r.Nontrivial {
			nontriv[h] = struct{}{}
		}
		nontrivOver += r.NontrivialN - int64(len(r.Nontrivial))
		for _, h := range r.Outcomes {
			outcomes[h] = struct{}{}
		}
		outcomesOver += r.OutcomesN - int64(len(r.Outcomes))
		for sig, l := range r.Viol {
			merged.Viol[sig] = append(merged.Viol[sig], l...)
		}
		for sig, k := range r.ViolN {
			merged.ViolN[sig] += k
		}
		if len(merged.Samples) < 8 && len(r.Samples) > 0 {
			k := 2
			if len(r.Samples) < k {
				k = len(r.Samples)
			}
			merged.Samples = append(merged.Samples, r.Samples[:k]...)
		}
		if !r.Exhaustive {
			merged.Exhaustive = false
		}
		if r.Bound != "" {
			merged.Bound = r.Bound
		}
		for k, v := range r.Extra {
			merged.Extra[k] = v
		}
		for _, nt := range r.Notes {
			dup := false
			for _, x := range merged.Notes {
				if x == nt {
					dup = true
				}
			}
			if !dup {
				merged.Notes = append(merged.Notes, nt)
			}
		}
		for k, l := range r.Sets {
			if sets[k] == nil {
				sets[k] = map[string]struct{}{}
			}
			for _, s := range l {
				sets[k][s] = struct{}{}
			}
		}
	}
	// classify violations
	known := loadKnown()
	var sigs []string
	for s := range merged.ViolN {
		sigs = append(sigs, s)
	}
	sort.Strings(sigs)
	var knownHit []string
	exit := 0
	newViol := 0
	unreproduced := 0
	os.MkdirAll(filepath.Join(VerifDir, "replays"), 0o755)
	for _, sig := range sigs {
		l := merged.Viol[sig]
		sort.SliceStable(l, func(i, j int) bool { return l[i].Order < l[j].Order })
		first := l[0]
		esc := SigEscape(sig)
		isKnown := false
		for _, k := range known {
			if k.Prop == id && k.Sig == esc {
				isKnown = true
			}
		}
		if isKnown {
			fmt.Printf("KNOWN-FINDING: property=%s sig=%s cases=%d first=%s\n", id, esc, merged.ViolN[sig], clip(string(first.Case), 300))
			knownHit = append(knownHit, esc)
			continue
		}
		// re-execute the smallest case without the explorer before believing it
		reproduced := true
		if ck.Replay != nil {
			for rep := 0; rep < 3; rep++ {
				ok, _, rerr := replayInFreshProcess(exe, id, first)
				if rerr != nil || !ok {
					reproduced = false
					break
				}
			}
		}
		if !reproduced {
			unreproduced++
			fmt.Printf("UNREPRODUCED: property=%s sig=%s (a case failed inside the explorer but not when replayed alone; treated as harness non-determinism, not as a violation) case=%s\n", id, esc, clip(string(first.Case), 300))
			continue
		}
		newViol++
		exit = 1
		path := filepath.Join(VerifDir, "replays", fmt.Sprintf("%s-%016x.json", id, H(sig)))
		rep := map[string]interface{}{"property": id, "tier": tier, "sig": esc, "cases_with_this_signature": merged.ViolN[sig], "case": first.Case, "detail": first.Detail,
			"how": fmt.Sprintf("cd /verif && ./check %s --replay %s", id, path)}
		b, _ := json.MarshalIndent(rep, "", " ")
		os.WriteFile(path, b, 0o644)
		fmt.Printf("VIOLATION property=%s replay=%s\n", id, path)
		fmt.Printf("  sig=%s cases=%d\n  case=%s\n  %s\n", esc, merged.ViolN[sig], clip(string(first.Case), 600), clip(first.Detail, 1200))
	}
	// evidence
	setsOut := map[string]interface{}{}
	for k, m := range sets {
		var l []string
		for s := range m {
			l = append(l, s)
		}
		sort.Strings(l)
		if len(l) > 200 {
			setsOut[k+"_count"] = len(l)
			l = l[:200]
		}
		setsOut[k] = l
	}
	states := int64(len(outcomes)) + outcomesOver
	if merged.States > 0 {
		states = merged.States
	}
	if states == 0 {
		states = 1
	}
	cov := map[string]interface{}{
		"evaluations":                   merged.Evaluations,
		"states":                        states,
		"transitions":                   merged.Transitions,
		"traces_validated_against_impl": merged.Traces,
		"distinct_nontrivial":           int64(len(nontriv)) + nontrivOver,
		"distinct_outcomes":             int64(len(outcomes)) + outcomesOver,
		"rule":                          ck.Rule,
		"samples":                       merged.Samples,
		"exhaustive":                    merged.Exhaustive,
		"bound_completed":               merged.Bound,
		"counters":                      merged.Counters,
		"known_findings_hit":            knownHit,
		"unreproduced":                  unreproduced,
		"shards":                        n,
		"notes":                         merged.Notes,
	}
	for k, v := range merged.Extra {
		cov[k] = v
	}
	for k, v := range setsOut {
		cov[k] = v
	}
	if len(merged.Samples) == 0 {
		cov["samples"] = []string{"(no sample recorded)"}
	}
	ev := map[string]interface{}{
		"property_id": id, "tier": tier, "seed": seed, "level": ck.Level, "coverage": cov,
		"assumptions": ck.Assumptions, "wall_s": time.Since(start).Seconds(), "violations": newViol,
	}
	os.MkdirAll(filepath.Join(VerifDir, "evidence"), 0o755)
	b, _ := json.MarshalIndent(ev, "", " ")
	if err := os.WriteFile(filepath.Join(VerifDir, "evidence", id+".json"), b, 0o644); err != nil {
		fmt.Fprintf(os.Stderr, "HARNESS-ERROR writing evidence: %v\n", err)
		return 2
	}
	fmt.Printf("%s %s: evaluations=%d states=%d transitions=%d validated=%d nontrivial=%d outcomes=%d exhaustive=%v bound=%q known=%d new=%d wall=%.1fs\n",
		id, tier, merged.Evaluations, states, merged.Transitions, merged.Traces, int64(len(nontriv))+nontrivOver, int64(len(outcomes))+outcomesOver,
		merged.Exhaustive, merged.Bound, len(knownHit), newViol, time.Since(start).Seconds())
	var ck2 []string
	for k, v := range merged.Counters {
		ck2 = append(ck2, fmt.Sprintf("%s=%d", k, v))
	}
	sort.Strings(ck2)
	fmt.Printf("  counters: %s\n", strings.Join(ck2, " "))
	for _, nt := range merged.Notes {
		fmt.Printf("  note: %s\n", nt)
	}
	return exit
}

func clip(s string, n int) string {
	if len(s) > n {
		return s[:n] + "…"
	}
	return s
}

var fatalRe = regexp.MustCompile(`(?m)^(fatal error: [^\n]*|runtime: goroutine stack exceeds[^\n]*)`)
var yqFrameRe = regexp.MustCompile(`github\.com/mikefarah/yq/v4/pkg/yqlib\.([\w\.\(\)\*]+)\(`)

type fatalCase struct {
	FatalShard string `json:"fatal_shard"`
	Tier       string `json:"tier"`
	Seed       int64  `json:"seed"`
	Budget     int    `json:"budget_s"`
	Last       string `json:"last_evaluation_started"`
}

func runShardCareful(exe, dir, id string, fc fatalCase) (crashed bool, log string, last string) {
	rec := filepath.Join(dir, "careful-"+strings.ReplaceAll(fc.FatalShard, "/", "of"))
	os.Remove(rec)
	cmd := exec.Command(exe, "worker", id, "--tier", fc.Tier, "--shard", fc.FatalShard, "--seed", fmt.Sprint(fc.Seed), "--budget", fmt.Sprint(fc.Budget), "--out", rec+".json")
	cmd.Env = append(os.Environ(), "GOMAXPROCS=2", "TZ=UTC", "MC_CAREFUL="+rec)
	out, err := cmd.CombinedOutput()
	if b, rerr := os.ReadFile(rec); rerr == nil && len(b) >= 8 {
		k := int(binary.LittleEndian.Uint64(b[:8]))
		if k <= len(b)-8 {
			last = string(b[8 : 8+k])
		}
	}
	os.Remove(rec)
	os.Remove(rec + ".json")
	return err != nil && fatalRe.Match(out), string(out), last
}

func fatalShard(exe, work, id, tier string, seed int64, budget time.Duration, i, n int, log string) (Violation, bool) {
	if !fatalRe.MatchString(log) {
		return Violation{}, false
	}
	fc := fatalCase{FatalShard: fmt.Sprintf("%d/%d", i, n), Tier: tier, Seed: seed, Budget: int(budget.Seconds())}
	crashed, log2, last := runShardCareful(exe, work, id, fc)
	if !crashed {
		return Violation{}, false
	}
	fc.Last = last
	kind := fatalRe.FindString(log2)
	frame := ""
	if m := yqFrameRe.FindStringSubmatch(log2); m != nil {
		frame = m[1]
	}
	cs, _ := json.Marshal(fc)
	return Violation{Sig: "fatal/" + frame + "/" + kind, Case: cs, Order: -1,
		Detail: fmt.Sprintf("the process evaluating this shard dies of %q (cannot be recovered from by a caller); evaluation in progress: %s\n%s", kind, clip(last, 600), clip(log2, 1500))}, true
}

func replayInFreshProcess(exe, id string, v Violation) (bool, string, error) {
	f, err := os.CreateTemp("", "mc-replay-*.json")
	if err != nil {
		return false, "", err
	}
	defer os.Remove(f.Name())
	b, _ := json.Marshal(map[string]interface{}{"property": id, "case": v.Case})
	f.Write(b)
	f.Close()
	cmd := exec.Command(exe, "replay", f.Name())
	cmd.Env = append(os.Environ(), "TZ=UTC")
	out, err := cmd.CombinedOutput()
	if err == nil {
		return false, string(out), nil
	}
	if ee, ok := err.(*exec.ExitError); ok && ee.ExitCode() == 1 {
		return true, string(out), nil
	}
	return false, string(out), err
}

// RunReplay replays one replay file; exit 1 + VIOLATION line if it still violates.
func RunReplay(path string) int {
	b, err := os.ReadFile(path)
	if err != nil {
		fmt.Fprintln(os.Stderr, err)
		return 2
	}
	var rep struct {
		Property string          `json:"property"`
		Case     json.RawMessage `json:"case"`
	}
	if err := json.Unmarshal(b, &rep); err != nil {
		fmt.Fprintln(os.Stderr, err)
		return 2
	}
	ck := Get(rep.Property)
	if ck == nil || ck.Replay == nil {
		fmt.Fprintf(os.Stderr, "no replay for %s\n", rep.Property)
		return 2
	}
	var fc fatalCase
	if json.Unmarshal(rep.Case, &fc) == nil && fc.FatalShard != "" {
		exe, _ := os.Executable()
		dir, _ := os.MkdirTemp("", "mc-fatal-")
		defer os.RemoveAll(dir)
		crashed, log, last := runShardCareful(exe, dir, rep.Property, fc)
		if crashed {
			if os.Getenv("MC_REPLAY_CHILD") == "" {
				fmt.Printf("VIOLATION property=%s replay=%s\n  fatal runtime error while evaluating %s\n%s\n", rep.Property, path, clip(last, 600), clip(log, 1500))
			}
			return 1
		}
		fmt.Printf("replay of %s: the shard completes without a fatal error\n", path)
		return 0
	}
	bad, detail, err := ck.Replay(rep.Case)
	if err != nil {
		fmt.Fprintln(os.Stderr, "replay error:", err)
		return 2
	}
	if bad {
		fmt.Printf("VIOLATION property=%s replay=%s\n  %s\n", rep.Property, path, clip(detail, 2000))
		return 1
	}
	fmt.Printf("replay of %s: property holds on this case\n", path)
	return 0
}
