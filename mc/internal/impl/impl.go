// Package impl is the adapter to the real implementation: everything goes through
// exported yqlib API (parser, decoders, DataTreeNavigator, encoders, printer).
package impl

import (
	"bytes"
	"container/list"
	"encoding/binary"
	"fmt"
	"io"
	"os"
	"runtime/debug"
	"strings"

	"github.com/mikefarah/yq/v4/pkg/yqlib"
	logging "gopkg.in/op/go-logging.v1"

	"verif/mc/internal/val"
)

var nav yqlib.DataTreeNavigator

// Panic is what the adapters return when the implementation panicked: the value and the stack at the point of the panic.
type Panic struct {
	V     interface{}
	Stack string
}

func (p *Panic) String() string { return fmt.Sprint(p.V) }

func caught(r interface{}) interface{} {
	if p, ok := r.(*Panic); ok {
		return p
	}
	return &Panic{V: r, Stack: string(debug.Stack())}
}

func Init() {
	logging.SetLevel(logging.ERROR, "")
	yqlib.InitExpressionParser()
	nav = yqlib.NewDataTreeNavigator()
	if p := os.Getenv("MC_CAREFUL"); p != "" {
		careful, _ = os.OpenFile(p, os.O_CREATE|os.O_WRONLY, 0o644)
	}
}

func Nav() yqlib.DataTreeNavigator { return nav }

// Parse parses an expression; a panic inside the parser is returned as panicked != nil.
func Parse(expr string) (node *yqlib.ExpressionNode, err error, panicked interface{}) {
	defer func() {
		if r := recover(); r != nil {
			panicked = caught(r)
		}
	}()
	node, err = yqlib.ExpressionParser.ParseExpression(expr)
	if careful != nil && node != nil {
		exprText[node] = expr
	}
	return
}

func YamlPrefs() yqlib.YamlPreferences {
	p := yqlib.NewDefaultYamlPreferences()
	p.ColorsEnabled = false
	return p
}

// DecodeYAML decodes every document of a YAML (or JSON-as-YAML) text with the real decoder.
func DecodeYAML(text string) (docs []*yqlib.CandidateNode, err error, panicked interface{}) {
	defer func() {
		if r := recover(); r != nil {
			panicked = caught(r)
		}
	}()
	dec := yqlib.NewYamlDecoder(YamlPrefs())
	if err = dec.Init(strings.NewReader(text)); err != nil {
		return
	}
	for {
		var n *yqlib.CandidateNode
		n, err = dec.Decode()
		if err == io.EOF {
			err = nil
			return
		}
		if err != nil {
			return
		}
		n.SetDocument(uint(len(docs)))
		n.SetFilename("f.yml")
		n.SetFileIndex(0)
		docs = append(docs, n)
	}
}

// Doc decodes a value (rendered as JSON text, which is YAML) into a fresh node graph.
func Doc(v *val.V) *yqlib.CandidateNode {
	docs, err, p := DecodeYAML(v.YAMLFlow())
	if err != nil || p != nil || len(docs) != 1 {
		panic(fmt.Sprintf("harness: cannot decode generated document %s: %v %v", v.YAMLFlow(), err, p))
	}
	return docs[0]
}

// Eval evaluates a parsed expression on the given input nodes (sequence-mode style: one context).
// careful mode (MC_CAREFUL=<file>): every evaluation is recorded in the file before it starts, so that the parent process can
// name the evaluation during which a worker died of an unrecoverable runtime error.
var careful *os.File
var exprText = map[*yqlib.ExpressionNode]string{}

func noteEval(e *yqlib.ExpressionNode, inputs []*yqlib.CandidateNode) {
	if careful == nil {
		return
	}
	txt := "expression " + exprText[e] + " on"
	for _, n := range inputs {
		txt += " " + ToV(n).JSON()
	}
	if len(txt) > 60000 {
		txt = txt[:60000]
	}
	b := make([]byte, 8+len(txt))
	binary.LittleEndian.PutUint64(b, uint64(len(txt)))
	copy(b[8:], txt)
	careful.WriteAt(b, 0)
}

func Eval(e *yqlib.ExpressionNode, inputs ...*yqlib.CandidateNode) (res []*yqlib.CandidateNode, err error, panicked interface{}) {
	noteEval(e, inputs)
	defer func() {
		if r := recover(); r != nil {
			panicked = caught(r)
		}
	}()
	l := list.New()
	for _, n := range inputs {
		l.PushBack(n)
	}
	ctx, err := nav.GetMatchingNodes(yqlib.Context{MatchingNodes: l}, e)
	if err != nil {
		return nil, err, nil
	}
	for el := ctx.MatchingNodes.Front(); el != nil; el = el.Next() {
		res = append(res, el.Value.(*yqlib.CandidateNode))
	}
	return
}

// EvalRO is Eval in a read-only context (DontAutoCreate).
func EvalRO(e *yqlib.ExpressionNode, inputs ...*yqlib.CandidateNode) (res []*yqlib.CandidateNode, err error, panicked interface{}) {
	noteEval(e, inputs)
	defer func() {
		if r := recover(); r != nil {
			panicked = caught(r)
		}
	}()
	l := list.New()
	for _, n := range inputs {
		l.PushBack(n)
	}
	ctx, err := nav.GetMatchingNodes(yqlib.Context{MatchingNodes: l, DontAutoCreate: true}, e)
	if err != nil {
		return nil, err, nil
	}
	for el := ctx.MatchingNodes.Front(); el != nil; el = el.Next() {
		res = append(res, el.Value.(*yqlib.CandidateNode))
	}
	return
}

// ToV converts a node graph to the value model (aliases are followed).
func ToV(n *yqlib.CandidateNode) *val.V {
	return toV(n, 0)
}

func toV(n *yqlib.CandidateNode, depth int) *val.V {
	if n == nil {
		return &val.V{K: val.Str, S: "<nil-node>"}
	}
	if depth > 200 {
		return &val.V{K: val.Str, S: "<too-deep>"}
	}
	switch n.Kind {
	case yqlib.AliasNode:
		return toV(n.Alias, depth+1)
	case yqlib.ScalarNode:
		switch n.Tag {
		case "!!null":
			return val.NullV()
		case "!!bool":
			return &val.V{K: val.Bool, S: strings.ToLower(n.Value)}
		case "!!int":
			return &val.V{K: val.Int, S: n.Value}
		case "!!float":
			return &val.V{K: val.Float, S: n.Value}
		case "!!str", "":
			return val.StrV(n.Value)
		default:
			return val.StrV(n.Tag + " " + n.Value)
		}
	case yqlib.SequenceNode:
		v := &val.V{K: val.Seq}
		for _, c := range n.Content {
			v.Vals = append(v.Vals, toV(c, depth+1))
		}
		return v
	case yqlib.MappingNode:
		v := &val.V{K: val.Map}
		for i := 0; i+1 < len(n.Content); i += 2 {
			v.Keys = append(v.Keys, toV(n.Content[i], depth+1))
			v.Vals = append(v.Vals, toV(n.Content[i+1], depth+1))
		}
		if len(n.Content)%2 == 1 {
			v.Keys = append(v.Keys, val.StrV("<odd-content>"))
			v.Vals = append(v.Vals, toV(n.Content[len(n.Content)-1], depth+1))
		}
		return v
	}
	return &val.V{K: val.Str, S: fmt.Sprintf("<kind %d>", n.Kind)}
}

// Dump renders the complete reachable node graph canonically (first-visit numbering = pointer structure).
type dumper struct {
	ids map[*yqlib.CandidateNode]int
	sb  strings.Builder
	// Lean drops position fields (Line/Column) which no property observes except through `line`/`column`.
	lean bool
}

func (d *dumper) ref(n *yqlib.CandidateNode) string {
	if n == nil {
		return "nil"
	}
	if id, ok := d.ids[n]; ok {
		return fmt.Sprintf("#%d", id)
	}
	id := len(d.ids)
	d.ids[n] = id
	key, parent, alias := d.ref(n.Key), d.ref(n.Parent), d.ref(n.Alias)
	var kids []string
	for _, c := range n.Content {
		kids = append(kids, d.ref(c))
	}
	fmt.Fprintf(&d.sb, "{#%d k%d s%d t%q v%q a%q mk%v hc%q lc%q fc%q lead%q tog%v", id, n.Kind, n.Style, n.Tag, n.Value, n.Anchor, n.IsMapKey,
		n.HeadComment, n.LineComment, n.FootComment, n.LeadingContent, n.EvaluateTogether)
	if !d.lean {
		fmt.Fprintf(&d.sb, " line%d col%d", n.Line, n.Column)
	}
	fmt.Fprintf(&d.sb, " key=%s parent=%s alias=%s [%s]}\n", key, parent, alias, strings.Join(kids, " "))
	return fmt.Sprintf("#%d", id)
}

// Dump returns the canonical dump of everything reachable from the given roots.
func Dump(lean bool, roots ...*yqlib.CandidateNode) string {
	d := &dumper{ids: map[*yqlib.CandidateNode]int{}, lean: lean}
	var top []string
	for _, r := range roots {
		top = append(top, d.ref(r))
	}
	return strings.Join(top, ",") + "\n" + d.sb.String()
}

// PrintYAML prints nodes through the real printer with default YAML preferences (no colours).
func PrintYAML(nodes []*yqlib.CandidateNode) (out string, err error, panicked interface{}) {
	return Print(nodes, yqlib.NewYamlEncoder(YamlPrefs()))
}

func Print(nodes []*yqlib.CandidateNode, enc yqlib.Encoder) (out string, err error, panicked interface{}) {
	defer func() {
		if r := recover(); r != nil {
			panicked = caught(r)
		}
	}()
	var buf bytes.Buffer
	pw := yqlib.NewSinglePrinterWriter(&buf)
	pr := yqlib.NewPrinter(enc, pw)
	l := list.New()
	for _, n := range nodes {
		l.PushBack(n)
	}
	err = pr.PrintResults(l)
	out = buf.String()
	return
}

func JSONPrefs() yqlib.JsonPreferences {
	p := yqlib.ConfiguredJSONPreferences.Copy()
	p.ColorsEnabled = false
	p.UnwrapScalar = false
	p.Indent = 0
	return p
}
