// Package refsem is the reference abstract machine for yq's expression language: a small, boring
// interpreter over a heap of values with identity (see DESIGN.md section 3 and appendix A).
package refsem

import (
	"fmt"
	"strconv"
	"strings"

	"verif/mc/internal/val"
)

// E is an expression AST node. Op names are the reference's own; String() prints yq syntax
// with explicit parentheses around every compound operand (so nothing depends on precedence).
type E struct {
	Op string
	A  []*E
	S  string // key name / variable name / flags / slice text
	N  int    // index / flatten depth
	V  *val.V // literal
}

func Leaf(op string) *E                  { return &E{Op: op} }
func Key(k string) *E                    { return &E{Op: "key", S: k} }
func Idx(i int) *E                       { return &E{Op: "idx", N: i} }

// Idxs is one bracket holding several indices: .[i, j, ...]
func Idxs(is ...int) *E {
	var parts []string
	for _, i := range is {
		parts = append(parts, strconv.Itoa(i))
	}
	return &E{Op: "idxs", S: strings.Join(parts, ", ")}
}
func Lit(v *val.V) *E                    { return &E{Op: "lit", V: v} }
func Var(n string) *E                    { return &E{Op: "var", S: n} }
func Un(op string, a *E) *E              { return &E{Op: op, A: []*E{a}} }
func Bin(op string, a, b *E) *E          { return &E{Op: op, A: []*E{a, b}} }
func Slice(lo, hi string) *E             { return &E{Op: "slice", S: lo + ":" + hi} }
func As(src *E, name string, body *E) *E { return &E{Op: "as", S: name, A: []*E{src, body}} }
func Reduce(src *E, name string, init, body *E) *E {
	return &E{Op: "reduce", S: name, A: []*E{src, init, body}}
}
func ObjLit(key string, v *E) *E { return &E{Op: "objk", S: key, A: []*E{v}} }

var binSym = map[string]string{
	"pipe": "|", "union": ",", "add": "+", "sub": "-", "mul": "*", "div": "/", "mod": "%",
	"eq": "==", "ne": "!=", "lt": "<", "le": "<=", "gt": ">", "ge": ">=", "and": "and", "or": "or", "alt": "//",
	"assign": "=", "update": "|=", "addassign": "+=", "subassign": "-=", "mulassign": "*=",
}

// IsBinary reports whether op is a binary infix operator of the reference.
func IsBinary(op string) bool { _, ok := binSym[op]; return ok }

func (e *E) atom() bool {
	return len(e.A) == 0 || e.Op == "keyof" || e.Op == "collect" || e.Op == "objk" || e.Op == "obje" || isFunc(e.Op)
}

func isFunc(op string) bool {
	switch op {
	case "select", "map", "has", "contains", "group_by", "unique_by", "with_entries", "any_c", "all_c", "join", "split", "sort_by", "del", "with",
		"map_values", "filter", "pick", "omit", "flattenn", "explode", "path", "min_by", "max_by":
		return true
	}
	return false
}

func (e *E) wrap() string {
	if e.atom() {
		return e.String()
	}
	return "(" + e.String() + ")"
}

func (e *E) String() string {
	switch e.Op {
	case "self":
		return "."
	case "key":
		return "." + e.S
	case "qkey":
		return ".[" + strconv.Quote(e.S) + "]"
	case "idx":
		return ".[" + strconv.Itoa(e.N) + "]"
	case "idxs":
		return ".[" + e.S + "]"
	case "splat":
		return ".[]"
	case "rdesc":
		return ".."
	case "rdesc3":
		return "..."
	case "keyof":
		return "(" + e.A[0].String() + " | key)"
	case "slice":
		return ".[" + e.S + "]"
	case "lit":
		return litText(e.V)
	case "var":
		return "$" + e.S
	case "collect":
		return "[" + e.A[0].String() + "]"
	case "objk":
		return "{" + strconv.Quote(e.S) + ": " + e.A[0].wrap() + "}"
	case "obje":
		return "{(" + e.A[0].String() + "): " + e.A[1].wrap() + "}"
	case "as":
		return e.A[0].wrap() + " as $" + e.S + " | " + e.A[1].wrap()
	case "reduce":
		return e.A[0].wrap() + " as $" + e.S + " ireduce (" + e.A[1].String() + "; " + e.A[2].String() + ")"
	case "flattenn":
		return "flatten(" + strconv.Itoa(e.N) + ")"
	case "with":
		return "with(" + e.A[0].String() + "; " + e.A[1].String() + ")"
	case "mul":
		return e.A[0].wrap() + " *" + e.S + " " + e.A[1].wrap()
	case "mulassign":
		return e.A[0].wrap() + " *=" + e.S + " " + e.A[1].wrap()
	}
	if sym, ok := binSym[e.Op]; ok {
		return e.A[0].wrap() + " " + sym + " " + e.A[1].wrap()
	}
	if isFunc(e.Op) {
		var args []string
		for _, a := range e.A {
			args = append(args, a.String())
		}
		return e.Op + "(" + strings.Join(args, "; ") + ")"
	}
	if len(e.A) == 0 {
		return e.Op // builtins without arguments: length, keys, ...
	}
	panic("refsem: cannot print op " + e.Op)
}

func litText(v *val.V) string {
	switch v.K {
	case val.Str:
		return strconv.Quote(v.S)
	case val.Seq:
		if len(v.Vals) == 0 {
			return "[]"
		}
	case val.Map:
		if len(v.Vals) == 0 {
			return "{}"
		}
	default:
		return v.S
	}
	// non-empty container literal: JSON text is valid yq syntax
	return v.JSON()
}

// Size is the number of AST nodes.
func (e *E) Size() int {
	n := 1
	for _, a := range e.A {
		n += a.Size()
	}
	return n
}

// Ops lists the operator atoms of an expression (for signatures).
func (e *E) Ops(into map[string]bool) {
	name := e.Op
	switch e.Op {
	case "key":
		name = ".k"
	case "idx":
		name = fmt.Sprintf(".[%d]", e.N)
	case "lit":
		name = "lit:" + e.V.K.String()
	case "slice":
		name = ".[" + e.S + "]"
	}
	into[name] = true
	for _, a := range e.A {
		a.Ops(into)
	}
}
