package refsem

import "verif/mc/internal/val"

// Alphabet is the finite menu an expression enumerator draws from.
type Alphabet struct {
	Leaves []*E
	Unary  []func(a *E) *E
	Binary []func(a, b *E) *E
}

// Enumerate returns every AST with at most maxSize nodes over the alphabet, smallest first (canonical order).
func (al *Alphabet) Enumerate(maxSize int) []*E {
	bySize := make([][]*E, maxSize+1)
	for s := 1; s <= maxSize; s++ {
		var out []*E
		if s == 1 {
			out = append(out, al.Leaves...)
		} else {
			for _, u := range al.Unary {
				for _, a := range bySize[s-1] {
					out = append(out, u(a))
				}
			}
			for _, b := range al.Binary {
				for ls := 1; ls <= s-2; ls++ {
					rs := s - 1 - ls
					for _, l := range bySize[ls] {
						for _, r := range bySize[rs] {
							out = append(out, b(l, r))
						}
					}
				}
			}
		}
		bySize[s] = out
	}
	var all []*E
	for s := 1; s <= maxSize; s++ {
		all = append(all, bySize[s]...)
	}
	return all
}

func un(op string) func(a *E) *E     { return func(a *E) *E { return Un(op, a) } }
func bin(op string) func(a, b *E) *E { return func(a, b *E) *E { return Bin(op, a, b) } }

// CoreAlphabet is C01's fragment (DESIGN.md section 4, C01).
func CoreAlphabet(rich bool) *Alphabet {
	al := &Alphabet{}
	for _, op := range []string{"self", "splat", "rdesc", "length", "keys", "reverse", "unique", "flatten", "to_entries", "from_entries", "any", "all", "not"} {
		al.Leaves = append(al.Leaves, Leaf(op))
	}
	al.Leaves = append(al.Leaves, Key("a"), Key("b"), Idx(0), Idx(1), Idx(-1), Slice("1", ""), Slice("", "1"),
		Lit(val.IntV(1)), Lit(val.IntV(2)), Lit(val.IntV(-1)), Lit(val.FloatText("1.5")), Lit(val.StrV("a")), Lit(val.StrV("b")),
		Lit(val.NullV()), Lit(val.BoolV(true)), Lit(val.BoolV(false)), Lit(val.SeqV()), Lit(val.MapV()), Var("x"))
	for _, op := range []string{"collect", "select", "map", "has", "contains", "group_by", "with_entries", "any_c", "all_c", "join", "split"} {
		al.Unary = append(al.Unary, un(op))
	}
	al.Unary = append(al.Unary, func(a *E) *E { return ObjLit("k", a) })
	for _, op := range []string{"pipe", "union", "add", "sub", "mul", "div", "mod", "eq", "ne", "lt", "le", "gt", "ge", "and", "or", "alt"} {
		al.Binary = append(al.Binary, bin(op))
	}
	al.Binary = append(al.Binary, func(a, b *E) *E { return As(a, "x", b) })
	al.Binary = append(al.Binary, func(a, b *E) *E { return &E{Op: "obje", A: []*E{a, b}} })
	if rich {
		al.Leaves = append(al.Leaves, Leaf("rdesc3"), &E{Op: "flattenn", N: 1}, Idx(2), Slice("-1", ""), Slice("", "-1"))
		al.Unary = append(al.Unary, un("unique_by"), un("filter"))
		al.Binary = append(al.Binary, func(a, b *E) *E { return Reduce(a, "x", Lit(val.IntV(0)), b) })
	}
	return al
}
