package refsem

import (
	"fmt"
	"math"
	"strconv"
	"strings"

	"verif/mc/internal/val"
)

// Outcome of a reference evaluation.
type Outcome struct {
	Results []*val.V
	Err     string // non-empty: the semantics defines an error
	Undef   string // non-empty: the documentation leaves this point open – do not compare
}

type errDefined struct{ msg string }
type undefined struct{ why string }

func fail(format string, a ...interface{})  { panic(errDefined{fmt.Sprintf(format, a...)}) }
func undef(format string, a ...interface{}) { panic(undefined{fmt.Sprintf(format, a...)}) }

// Ctx carries the read-only flag and variable bindings.
type Ctx struct {
	RO   bool
	Vars map[string][]*val.V
}

func (c Ctx) ro() Ctx { c.RO = true; return c }
func (c Ctx) bind(name string, v []*val.V) Ctx {
	n := Ctx{RO: c.RO, Vars: map[string][]*val.V{}}
	for k, x := range c.Vars {
		n.Vars[k] = x
	}
	n.Vars[name] = v
	return n
}

// Machine evaluates expressions; Steps bounds runaway evaluation.
type Machine struct {
	Steps int
	// Together holds the documents that are evaluated together (eval-all): a binary operator, `as` and `[...]` whose
	// context consists of such documents only work on the whole context at once instead of node by node.
	Together map[*val.V]bool
}

// groups splits a context the way those three operators see it.
func (m *Machine) groups(in []*val.V) [][]*val.V {
	all := len(in) > 0 && len(m.Together) > 0
	for _, n := range in {
		if !m.Together[n] {
			all = false
		}
	}
	if all {
		return [][]*val.V{in}
	}
	var out [][]*val.V
	for _, n := range in {
		out = append(out, []*val.V{n})
	}
	return out
}

// RunTogether evaluates e on documents that are evaluated together (eval-all).
func RunTogether(e *E, in []*val.V) (out Outcome) {
	m := &Machine{Together: map[*val.V]bool{}}
	for _, n := range in {
		m.Together[n] = true
	}
	defer func() {
		if r := recover(); r != nil {
			switch x := r.(type) {
			case errDefined:
				out = Outcome{Err: x.msg}
			case undefined:
				out = Outcome{Undef: x.why}
			default:
				panic(r)
			}
		}
	}()
	res := m.ev(e, in, Ctx{})
	return Outcome{Results: res}
}

// Run evaluates e on the input stream (values are mutated in place where the semantics says so).
func Run(e *E, in []*val.V) (out Outcome) {
	m := &Machine{}
	defer func() {
		if r := recover(); r != nil {
			switch x := r.(type) {
			case errDefined:
				out = Outcome{Err: x.msg}
			case undefined:
				out = Outcome{Undef: x.why}
			default:
				panic(r)
			}
		}
	}()
	res := m.ev(e, in, Ctx{})
	return Outcome{Results: res}
}

// RunRO is Run in a read-only context.
func RunRO(e *E, in []*val.V) (out Outcome) {
	m := &Machine{}
	defer func() {
		if r := recover(); r != nil {
			switch x := r.(type) {
			case errDefined:
				out = Outcome{Err: x.msg}
			case undefined:
				out = Outcome{Undef: x.why}
			default:
				panic(r)
			}
		}
	}()
	res := m.ev(e, in, Ctx{RO: true})
	return Outcome{Results: res}
}

func truthy(v *val.V) bool {
	if v == nil || v.K == val.Null {
		return false
	}
	if v.K == val.Bool {
		return v.S == "true"
	}
	return true
}

func (m *Machine) ev(e *E, in []*val.V, c Ctx) []*val.V {
	m.Steps++
	if m.Steps > 200000 {
		undef("evaluation too long")
	}
	switch e.Op {
	case "self":
		return in
	case "pipe":
		return m.ev(e.A[1], m.ev(e.A[0], in, c), c)
	case "union":
		// how-it-works.md: "," concatenates the results of its operands, both evaluated on the same context, left first
		l := m.ev(e.A[0], in, c)
		r := m.ev(e.A[1], in, c)
		return append(append([]*val.V{}, l...), r...)
	case "lit":
		// valueOperator: one copy per context node (7a: on an empty stream the documentation is silent)
		if len(in) == 0 {
			undef("literal on an empty stream")
		}
		if e.V.K == val.Map && len(e.V.Vals) == 0 && len(in) != 1 {
			undef("{} on a stream whose length is not 1") // 7a: lexes to `empty | collect_object`
		}
		if e.V.K == val.Seq && len(e.V.Vals) == 0 {
			// `[]` is the collect operator without an operand: one empty array per group of the context
			var out []*val.V
			for range m.groups(in) {
				out = append(out, val.SeqV())
			}
			return out
		}
		out := make([]*val.V, len(in))
		for i := range in {
			out[i] = e.V.Copy()
		}
		return out
	case "var":
		return append([]*val.V{}, c.Vars[e.S]...)
	case "ref":
		return []*val.V{e.V}
	case "key", "qkey":
		var out []*val.V
		for _, n := range in {
			out = append(out, m.travKey(n, e.S, c)...)
		}
		return out
	case "idx":
		var out []*val.V
		for _, n := range in {
			out = append(out, m.travIdx(n, e.N, c)...)
		}
		return out
	case "idxs":
		// one bracket, several indices: per context node each index in turn (a padding index lengthens the sequence the
		// following ones see)
		var out []*val.V
		for _, n := range in {
			for _, t := range strings.Split(e.S, ", ") {
				i, _ := strconv.Atoi(t)
				out = append(out, m.travIdx(n, i, c)...)
			}
		}
		return out
	case "splat":
		var out []*val.V
		for _, n := range in {
			out = append(out, m.splat(n, c)...)
		}
		return out
	case "rdesc", "rdesc3":
		var out []*val.V
		for _, n := range in {
			rdesc(n, e.Op == "rdesc3", &out)
		}
		return out
	case "keyof":
		// (E | key) for results of E that are values of map entries below the context node: the key node of that entry
		var out []*val.V
		for _, n := range in {
			for _, r := range m.ev(e.A[0], []*val.V{n}, c) {
				k := keyNodeOf(n, r)
				if k == nil {
					undef("key of something that is not the value of a map entry below the context node")
				}
				out = append(out, k)
			}
		}
		return out
	case "slice":
		var out []*val.V
		for _, n := range in {
			out = append(out, slice(n, e.S))
		}
		return out
	case "collect":
		// collect-into-array.md: one array per context node holding (copies of) the results of e; [] when there is no context
		if len(in) == 0 {
			return []*val.V{val.SeqV()}
		}
		var out []*val.V
		for _, one := range m.groups(in) {
			s := val.SeqV()
			if len(one) > 1 || m.Together[one[0]] {
				// documents evaluated together: one array for all of them, each document read on its own and read-only
				for _, n := range one {
					for _, r := range m.ev(e.A[0], []*val.V{n}, c.ro()) {
						s.Vals = append(s.Vals, r.Copy())
					}
				}
			} else {
				for _, r := range m.ev(e.A[0], one, c) {
					s.Vals = append(s.Vals, r.Copy())
				}
			}
			out = append(out, s)
		}
		return out
	case "objk", "obje":
		return m.object(e, in, c)
	case "as":
		if len(in) == 0 {
			// no context: the source is still evaluated (a path yields nothing there; for a literal the documentation is silent);
			// with nothing to bind the body is evaluated on the empty stream (only `[...]` produces something there)
			src := m.ev(e.A[0], in, c.ro())
			if len(src) == 0 {
				return m.ev(e.A[1], in, c)
			}
			var out []*val.V
			for _, v := range src {
				out = append(out, m.ev(e.A[1], in, c.bind(e.S, []*val.V{v.Copy()}))...)
			}
			return out
		}
		var out []*val.V
		for _, one := range m.groups(in) {
			src := m.ev(e.A[0], one, c.ro())
			if len(src) == 0 {
				out = append(out, m.ev(e.A[1], one, c)...)
				continue
			}
			for _, v := range src {
				out = append(out, m.ev(e.A[1], one, c.bind(e.S, []*val.V{v.Copy()}))...)
			}
		}
		return out
	case "reduce":
		arr := m.ev(e.A[0], in, c)
		acc := m.ev(e.A[1], in, c)
		for _, el := range arr {
			acc = m.ev(e.A[2], acc, c.bind(e.S, []*val.V{el}))
		}
		return acc
	case "add", "sub", "mul", "div", "mod", "eq", "ne", "lt", "le", "gt", "ge", "and", "or", "alt", "contains":
		return m.binary(e, in, c)
	case "select":
		var out []*val.V
		for _, n := range in {
			for _, r := range m.ev(e.A[0], []*val.V{n}, c.ro()) {
				if truthy(r) {
					out = append(out, n)
					break
				}
			}
		}
		return out
	case "map", "filter":
		var out []*val.V
		for _, n := range in {
			sp := m.splat(n, c)
			var res []*val.V
			if e.Op == "filter" {
				for _, x := range sp {
					for _, r := range m.ev(e.A[0], []*val.V{x}, c.ro()) {
						if truthy(r) {
							res = append(res, x)
							break
						}
					}
				}
			} else {
				res = m.ev(e.A[0], sp, c)
			}
			s := val.SeqV()
			for _, r := range res {
				s.Vals = append(s.Vals, r.Copy())
			}
			out = append(out, s)
		}
		return out
	case "length":
		var out []*val.V
		for _, n := range in {
			switch n.K {
			case val.Null:
				out = append(out, val.IntV(0))
			case val.Seq, val.Map:
				out = append(out, val.IntV(int64(len(n.Vals))))
			default:
				for _, r := range n.S {
					if r > 127 {
						undef("length of a non-ASCII string")
					}
				}
				out = append(out, val.IntV(int64(len(n.S))))
			}
		}
		return out
	case "keys":
		var out []*val.V
		for _, n := range in {
			switch n.K {
			case val.Map:
				s := val.SeqV()
				s.Vals = append(s.Vals, n.Keys...)
				out = append(out, s)
			case val.Seq:
				s := val.SeqV()
				for i := range n.Vals {
					s.Vals = append(s.Vals, val.IntV(int64(i)))
				}
				out = append(out, s)
			default:
				fail("cannot get keys of %s", n.K)
			}
		}
		return out
	case "has":
		w := m.ev(e.A[0], in, c.ro())
		wanted := val.NullV()
		if len(w) > 0 {
			wanted = w[0]
		}
		if !wanted.IsScalar() {
			undef("has() with a container argument")
		}
		var out []*val.V
		for _, n := range in {
			switch n.K {
			case val.Map:
				found := false
				for _, k := range n.Keys {
					if k.S == wanted.S {
						if k.K != wanted.K {
							undef("has(): key and argument have equal text but different types")
						}
						found = true
					}
				}
				out = append(out, val.BoolV(found))
			case val.Seq:
				if wanted.K == val.Int {
					i, err := strconv.ParseInt(wanted.S, 10, 64)
					if err != nil || i < 0 {
						undef("has() with a negative or non-decimal index")
					}
					out = append(out, val.BoolV(int64(len(n.Vals)) > i))
				} else {
					out = append(out, val.BoolV(false))
				}
			default:
				out = append(out, val.BoolV(false))
			}
		}
		return out
	case "to_entries":
		var out []*val.V
		for _, n := range in {
			if r := toEntries(n); r != nil {
				out = append(out, r)
			}
		}
		return out
	case "from_entries":
		var out []*val.V
		for _, n := range in {
			out = append(out, fromEntries(n))
		}
		return out
	case "with_entries":
		var out []*val.V
		for _, n := range in {
			ents := toEntries(n)
			if ents == nil {
				continue
			}
			coll := val.SeqV()
			for _, item := range ents.Vals {
				for _, r := range m.ev(e.A[0], []*val.V{item}, c) {
					coll.Vals = append(coll.Vals, r.Copy())
				}
			}
			out = append(out, fromEntries(coll))
		}
		return out
	case "reverse":
		var out []*val.V
		for _, n := range in {
			if n.K != val.Seq {
				fail("reverse: not an array")
			}
			s := val.SeqV()
			for i := len(n.Vals) - 1; i >= 0; i-- {
				s.Vals = append(s.Vals, n.Vals[i].Copy())
			}
			out = append(out, s)
		}
		return out
	case "unique", "unique_by":
		var out []*val.V
		for _, n := range in {
			if n.K != val.Seq {
				fail("unique: only arrays are supported")
			}
			seen := map[string]*val.V{}
			s := val.SeqV()
			for _, el := range n.Vals {
				k := el
				if e.Op == "unique_by" {
					r := m.ev(e.A[0], []*val.V{el}, c.ro())
					if len(r) == 0 {
						k = val.NullV()
					} else {
						k = r[0]
					}
				}
				ks := groupKey(k, true)
				if prev, ok := seen[ks]; ok {
					if prev.K != k.K {
						undef("unique: equal text, different types")
					}
					continue
				}
				seen[ks] = k
				s.Vals = append(s.Vals, el.Copy())
			}
			out = append(out, s)
		}
		return out
	case "group_by":
		var out []*val.V
		for _, n := range in {
			if n.K != val.Seq {
				fail("group_by: only arrays are supported")
			}
			var order []string
			groups := map[string]*val.V{}
			kinds := map[string]*val.V{}
			for _, el := range n.Vals {
				r := m.ev(e.A[0], []*val.V{el}, c.ro())
				k := val.NullV()
				if len(r) > 0 {
					k = r[0]
				}
				ks := groupKey(k, false)
				if prev, ok := kinds[ks]; ok && prev.K != k.K {
					undef("group_by: equal text, different types")
				}
				kinds[ks] = k
				g := groups[ks]
				if g == nil {
					g = val.SeqV()
					groups[ks] = g
					order = append(order, ks)
				}
				g.Vals = append(g.Vals, el.Copy())
			}
			s := val.SeqV()
			for _, ks := range order {
				s.Vals = append(s.Vals, groups[ks])
			}
			out = append(out, s)
		}
		return out
	case "flatten", "flattenn":
		depth := -1
		if e.Op == "flattenn" {
			depth = e.N
		}
		var out []*val.V
		for _, n := range in {
			if n.K != val.Seq {
				fail("flatten: only arrays are supported")
			}
			s := val.SeqV()
			flattenInto(s, n, depth)
			out = append(out, s)
		}
		return out
	case "any", "all", "any_c", "all_c":
		var out []*val.V
		for _, n := range in {
			if n.K != val.Seq {
				fail("%s only supports arrays", e.Op)
			}
			want := e.Op == "any" || e.Op == "any_c"
			found := false
			for _, el := range n.Vals {
				x := el
				if len(e.A) > 0 {
					r := m.ev(e.A[0], []*val.V{el}, c.ro())
					if len(r) == 0 {
						continue
					}
					x = r[0]
				}
				if truthy(x) == want {
					found = true
					break
				}
			}
			if want {
				out = append(out, val.BoolV(found))
			} else {
				out = append(out, val.BoolV(!found))
			}
		}
		return out
	case "not":
		var out []*val.V
		for _, n := range in {
			out = append(out, val.BoolV(!truthy(n)))
		}
		return out
	case "join":
		sep := ""
		if r := m.ev(e.A[0], in, c.ro()); len(r) > 0 {
			if !r[0].IsScalar() {
				undef("join with a container separator")
			}
			sep = r[0].S
			if r[0].K == val.Null {
				undef("join with a null separator")
			}
		}
		var out []*val.V
		for _, n := range in {
			if n.K != val.Seq {
				fail("join: can only join arrays")
			}
			var parts []string
			for _, el := range n.Vals {
				switch {
				case el.K == val.Null:
					parts = append(parts, "")
				case el.IsScalar():
					parts = append(parts, el.S)
				default:
					undef("join of an array holding containers")
				}
			}
			out = append(out, val.StrV(strings.Join(parts, sep)))
		}
		return out
	case "split":
		sep := ""
		if r := m.ev(e.A[0], in, c.ro()); len(r) > 0 {
			if r[0].K != val.Str {
				undef("split with a non-string separator")
			}
			sep = r[0].S
		}
		var out []*val.V
		for _, n := range in {
			if n.K == val.Null {
				continue
			}
			if n.K != val.Str {
				fail("split: can only split strings")
			}
			s := val.SeqV()
			if n.S != "" {
				for _, p := range strings.Split(n.S, sep) {
					s.Vals = append(s.Vals, val.StrV(p))
				}
			}
			out = append(out, s)
		}
		return out
	case "assign", "update", "addassign", "subassign", "mulassign", "del", "with":
		return m.evUpdate(e, in, c)
	}
	panic("refsem: unknown op " + e.Op)
}

func groupKey(k *val.V, containersToo bool) string {
	if k.IsScalar() {
		return k.S
	}
	if !containersToo {
		undef("group_by with a container key")
	}
	return "\x00" + k.String()
}

func flattenInto(dst, n *val.V, depth int) {
	for _, el := range n.Vals {
		if el.K == val.Seq && depth != 0 {
			flattenInto(dst, el, depth-1)
		} else {
			dst.Vals = append(dst.Vals, el.Copy())
		}
	}
}

func toEntries(n *val.V) *val.V {
	switch n.K {
	case val.Map:
		s := val.SeqV()
		for i, k := range n.Keys {
			s.Vals = append(s.Vals, val.MapV(val.StrV("key"), k.Copy(), val.StrV("value"), n.Vals[i].Copy()))
		}
		return s
	case val.Seq:
		s := val.SeqV()
		for i, v := range n.Vals {
			s.Vals = append(s.Vals, val.MapV(val.StrV("key"), val.IntV(int64(i)), val.StrV("value"), v.Copy()))
		}
		return s
	case val.Null:
		return nil
	}
	fail("%s has no keys", n.K)
	return nil
}

func fromEntries(n *val.V) *val.V {
	if n.K != val.Seq {
		fail("from_entries only runs against arrays")
	}
	m := &val.V{K: val.Map}
	for _, el := range n.Vals {
		if el.K == val.Seq {
			undef("from_entries of an entry that is a sequence")
		}
		var k, v *val.V
		nk, nv := 0, 0
		if el.K == val.Map {
			for i, kk := range el.Keys {
				if kk.S == "key" {
					nk++
					k = el.Vals[i]
				}
				if kk.S == "value" {
					nv++
					v = el.Vals[i]
				}
			}
		}
		if nk != 1 || nv != 1 {
			fail("from_entries: expected one 'key' and one 'value' entry")
		}
		if !k.IsScalar() {
			undef("from_entries with a container key")
		}
		for _, ek := range m.Keys {
			if ek.S == k.S {
				undef("from_entries producing duplicate keys")
			}
		}
		m.Keys = append(m.Keys, k.Copy())
		m.Vals = append(m.Vals, v.Copy())
	}
	return m
}

// --- traversal -----------------------------------------------------------------------------------------

func isInt(s string) (int, bool) {
	i, err := strconv.Atoi(s)
	return i, err == nil
}

// travKey: traverse-read.md; vivification in a writable context is the mechanism named in C01's anchors (Context.DontAutoCreate).
func (m *Machine) travKey(n *val.V, key string, c Ctx) []*val.V {
	if strings.ContainsAny(key, "*?") {
		undef("wildcard key")
	}
	if n.K == val.Null && !c.RO {
		if _, ok := isInt(key); ok {
			undef("`.<digits>` on null: becomes a sequence or a map depending on how the key was lexed")
		}
		n.K = val.Map
		n.S = ""
	}
	switch n.K {
	case val.Map:
		var out []*val.V
		for i, k := range n.Keys {
			if k.S == key {
				out = append(out, n.Vals[i])
			}
		}
		if len(out) == 0 && !c.RO {
			v := val.NullV()
			n.Keys = append(n.Keys, val.StrV(key))
			n.Vals = append(n.Vals, v)
			out = append(out, v)
		}
		return out
	case val.Seq:
		i, ok := isInt(key)
		if !ok {
			fail("cannot index array with '%s'", key)
		}
		return m.seqIndex(n, i, c)
	}
	return nil
}

func (m *Machine) seqIndex(n *val.V, i int, c Ctx) []*val.V {
	if i >= len(n.Vals) {
		if c.RO {
			return nil // read-only: a missing index yields nothing
		}
		for len(n.Vals) <= i {
			n.Vals = append(n.Vals, val.NullV()) // assign-update.md: sequences are padded with null
		}
	}
	if i < 0 {
		i += len(n.Vals)
		if i < 0 {
			undef("negative index beyond the start of the sequence")
		}
	}
	return []*val.V{n.Vals[i]}
}

func (m *Machine) travIdx(n *val.V, i int, c Ctx) []*val.V {
	if n.K == val.Null {
		if c.RO {
			return nil
		}
		n.K = val.Seq
		n.S = ""
	}
	switch n.K {
	case val.Seq:
		return m.seqIndex(n, i, c)
	case val.Map:
		// traverse-read.md "Maps with numeric keys": the index is looked up as a key
		key := strconv.Itoa(i)
		var out []*val.V
		for j, k := range n.Keys {
			if k.S == key {
				out = append(out, n.Vals[j])
			}
		}
		if len(out) == 0 && !c.RO {
			v := val.NullV()
			n.Keys = append(n.Keys, val.IntV(int64(i)))
			n.Vals = append(n.Vals, v)
			out = append(out, v)
		}
		return out
	}
	return nil
}

func (m *Machine) splat(n *val.V, c Ctx) []*val.V {
	switch n.K {
	case val.Null:
		if !c.RO {
			n.K = val.Seq
			n.S = ""
		}
		return nil
	case val.Seq, val.Map:
		return append([]*val.V{}, n.Vals...)
	}
	return nil
}

func keyNodeOf(root, target *val.V) *val.V {
	switch root.K {
	case val.Seq:
		for _, v := range root.Vals {
			if k := keyNodeOf(v, target); k != nil {
				return k
			}
		}
	case val.Map:
		for i, v := range root.Vals {
			if v == target {
				return root.Keys[i]
			}
			if k := keyNodeOf(v, target); k != nil {
				return k
			}
		}
	}
	return nil
}

func rdesc(n *val.V, keysToo bool, out *[]*val.V) {
	*out = append(*out, n)
	switch n.K {
	case val.Seq:
		for _, v := range n.Vals {
			rdesc(v, keysToo, out)
		}
	case val.Map:
		for i, v := range n.Vals {
			if keysToo {
				*out = append(*out, n.Keys[i])
			}
			rdesc(v, keysToo, out)
		}
	}
}

func slice(n *val.V, spec string) *val.V {
	if n.K != val.Seq {
		undef("slice of a non-sequence")
	}
	p := strings.SplitN(spec, ":", 2)
	lo, hi := 0, len(n.Vals)
	if p[0] != "" {
		lo, _ = strconv.Atoi(p[0])
	}
	if p[1] != "" {
		hi, _ = strconv.Atoi(p[1])
	}
	if lo < 0 {
		lo += len(n.Vals)
		if lo < 0 {
			undef("slice start beyond the beginning")
		}
	}
	if hi < 0 {
		hi += len(n.Vals)
		if hi < 0 {
			undef("slice end beyond the beginning")
		}
	} else if hi > len(n.Vals) {
		hi = len(n.Vals)
	}
	s := val.SeqV()
	for i := lo; i < hi; i++ {
		if i >= len(n.Vals) {
			undef("slice start beyond the end")
		}
		s.Vals = append(s.Vals, n.Vals[i].Copy())
	}
	return s
}

// --- object construction ----------------------------------------------------------------------------------

func (m *Machine) object(e *E, in []*val.V, c Ctx) []*val.V {
	if len(in) != 1 {
		undef("object construction on a stream whose length is not 1")
	}
	n := in[0]
	var keys []*val.V
	var valE *E
	if e.Op == "objk" {
		keys = []*val.V{val.StrV(e.S)}
		valE = e.A[0]
	} else {
		keys = m.ev(e.A[0], []*val.V{n}, c)
		valE = e.A[1]
	}
	var out []*val.V
	for _, k := range keys {
		if !k.IsScalar() {
			undef("object with a container key")
		}
		for _, v := range m.ev(valE, []*val.V{n}, c) {
			out = append(out, val.MapV(k.Copy(), v.Copy()))
		}
	}
	if len(keys) == 0 || len(out) == 0 {
		undef("object construction with an empty key or value stream")
	}
	return out
}

// --- binary operators -----------------------------------------------------------------------------------------

func (m *Machine) binary(e *E, in []*val.V, c Ctx) []*val.V {
	op := e.Op
	roOperands := false
	calcWhenEmpty := false
	switch op {
	case "add":
		roOperands, calcWhenEmpty = true, true
	case "sub", "div", "mod", "contains":
		roOperands = true
	case "ne":
		roOperands, calcWhenEmpty = true, true
	case "and", "or":
		roOperands, calcWhenEmpty = true, true
	case "eq", "lt", "le", "gt", "ge", "alt":
		calcWhenEmpty = true
	}
	oc := c
	if roOperands {
		oc = c.ro()
	}
	lhsE, rhsE := e.A[0], (*E)(nil)
	if op == "contains" {
		lhsE, rhsE = &E{Op: "self"}, e.A[0]
	} else {
		rhsE = e.A[1]
	}
	if len(in) == 0 {
		undef("binary operator on an empty stream") // 7a: the documentation is silent (yq computes `nothing op nothing` for some operators)
	}
	var out []*val.V
	for _, one := range m.groups(in) {
		L := m.ev(lhsE, one, oc)
		forRHS := func(l *val.V) {
			// short-circuit on the left value alone
			switch op {
			case "or":
				if truthy(l) {
					out = append(out, val.BoolV(true))
					return
				}
			case "and":
				if !truthy(l) {
					out = append(out, val.BoolV(false))
					return
				}
			case "alt":
				if l != nil && truthy(l) {
					out = append(out, l)
					return
				}
			}
			R := m.ev(rhsE, one, oc)
			if len(R) == 0 && calcWhenEmpty {
				if r := m.calc(e, l, nil); r != nil {
					out = append(out, r)
				}
				return
			}
			for _, r := range R {
				if x := m.calc(e, l, r); x != nil {
					out = append(out, x)
				}
			}
		}
		if len(L) == 0 && calcWhenEmpty {
			forRHS(nil)
		}
		for _, l := range L {
			forRHS(l)
		}
	}
	return out
}

func isNum(v *val.V) bool { return v.K == val.Int || v.K == val.Float }

func intOf(v *val.V) int64 {
	i, ok := val.ParseInt(v.S)
	if !ok || !i.IsInt64() {
		undef("integer outside 64 bits")
	}
	if strings.HasPrefix(v.S, "0x") || strings.HasPrefix(v.S, "0o") || strings.Contains(v.S, "_") {
		undef("non-decimal integer spelling in arithmetic")
	}
	return i.Int64()
}

func floatOf(v *val.V) float64 {
	f, ok := v.NumVal()
	if !ok {
		undef("unparseable number")
	}
	return f
}

func (m *Machine) calc(e *E, l, r *val.V) *val.V {
	switch e.Op {
	case "and", "or":
		return val.BoolV(truthy(r))
	case "alt":
		if l == nil {
			return r
		}
		if r == nil {
			return l
		}
		if truthy(l) {
			undef("alternative whose right operand vivified the (null) left operand")
		}
		return r
	case "eq", "ne":
		res := equalsRef(l, r)
		if e.Op == "ne" {
			res = !res
		}
		return val.BoolV(res)
	case "lt", "le", "gt", "ge":
		return compareRef(e.Op, l, r)
	case "add":
		return addRef(l, r)
	case "sub":
		return subRef(l, r)
	case "mul":
		return m.mulRef(e, l, r)
	case "div":
		return divRef(l, r)
	case "mod":
		return modRef(l, r)
	case "contains":
		if (l.K >= val.Seq) != (r.K >= val.Seq) || (l.K >= val.Seq && l.K != r.K) {
			fail("%s cannot check contained in %s", r.K, l.K)
		}
		return val.BoolV(containsRef(l, r))
	}
	panic("calc " + e.Op)
}

func equalsRef(l, r *val.V) bool {
	if l == nil && r == nil {
		return true
	}
	if l == nil {
		return r.K == val.Null
	}
	if r == nil {
		return l.K == val.Null
	}
	if l.K == val.Null || r.K == val.Null {
		return l.K == r.K
	}
	if !l.IsScalar() || !r.IsScalar() {
		undef("equality of containers")
	}
	if strings.ContainsAny(r.S, "*?") {
		undef("equality with a wildcard pattern on the right")
	}
	if l.K == r.K {
		if l.K == val.Float || (l.K == val.Int && l.S != r.S) {
			lf, rf := floatOf(l), floatOf(r)
			if (lf == rf) != (l.S == r.S) {
				undef("equality of numbers with different spellings")
			}
		}
		return l.S == r.S
	}
	if l.S == r.S {
		undef("equality of scalars of different types with the same text")
	}
	if isNum(l) && isNum(r) && floatOf(l) == floatOf(r) {
		undef("equality of an integer and a float of equal value")
	}
	return false
}

func compareRef(op string, l, r *val.V) *val.V {
	orEqual := op == "le" || op == "ge"
	greater := op == "gt" || op == "ge"
	if l == nil && r == nil {
		return val.BoolV(orEqual)
	}
	if l == nil || r == nil {
		return val.BoolV(false)
	}
	if !l.IsScalar() || !r.IsScalar() {
		fail("containers are not supported for comparison")
	}
	if l.K == val.Null || r.K == val.Null {
		undef("ordering comparison with null")
	}
	pick := func(cmp int) *val.V {
		if cmp == 0 {
			return val.BoolV(orEqual)
		}
		if greater {
			return val.BoolV(cmp > 0)
		}
		return val.BoolV(cmp < 0)
	}
	switch {
	case l.K == val.Int && r.K == val.Int:
		a, b := intOf(l), intOf(r)
		switch {
		case a < b:
			return pick(-1)
		case a > b:
			return pick(1)
		}
		return pick(0)
	case isNum(l) && isNum(r):
		a, b := floatOf(l), floatOf(r)
		if math.IsNaN(a) || math.IsNaN(b) {
			undef("NaN comparison")
		}
		switch {
		case a < b:
			return pick(-1)
		case a > b:
			return pick(1)
		}
		return pick(0)
	case l.K == val.Str && r.K == val.Str:
		if looksLikeTime(l.S) {
			undef("string that parses as a timestamp")
		}
		return pick(strings.Compare(l.S, r.S))
	}
	undef("ordering comparison of %s with %s", l.K, r.K)
	return nil
}

func looksLikeTime(s string) bool {
	return len(s) >= 10 && s[4] == '-' && s[7] == '-'
}

func addRef(l, r *val.V) *val.V {
	switch {
	case l == nil && r == nil:
		return nil
	case l == nil:
		return r.Copy()
	case r == nil:
		return l.Copy()
	case l.K == val.Null:
		return r.Copy()
	}
	switch l.K {
	case val.Map:
		if r.K != val.Map {
			if r.K == val.Null {
				undef("map + null")
			}
			fail("%s cannot be added to a map", r.K)
		}
		t := l.Copy()
		for i, k := range r.Keys {
			found := false
			for j, tk := range t.Keys {
				if tk.S == k.S && tk.K == k.K {
					t.Vals[j] = r.Vals[i].Copy()
					found = true
					break
				}
			}
			if !found {
				t.Keys = append(t.Keys, k.Copy())
				t.Vals = append(t.Vals, r.Vals[i].Copy())
			}
		}
		return t
	case val.Seq:
		t := l.Copy()
		switch r.K {
		case val.Null:
		case val.Seq:
			for _, x := range r.Vals {
				t.Vals = append(t.Vals, x.Copy())
			}
		default:
			t.Vals = append(t.Vals, r.Copy())
		}
		return t
	}
	// scalars
	if !r.IsScalar() {
		fail("%s cannot be added to a %s", r.K, l.K)
	}
	switch {
	case l.K == val.Str:
		if r.K == val.Null {
			return val.StrV(l.S)
		}
		if r.K != val.Str {
			undef("string + non-string scalar")
		}
		return val.StrV(l.S + r.S)
	case r.K == val.Str:
		undef("non-string scalar + string")
	case l.K == val.Int && r.K == val.Int:
		a, b := intOf(l), intOf(r)
		s := a + b
		if (s > a) != (b > 0) {
			undef("integer overflow")
		}
		return val.IntV(s)
	case isNum(l) && isNum(r):
		return val.FloatV(floatOf(l) + floatOf(r))
	case r.K == val.Null:
		undef("scalar + null")
	}
	undef("%s + %s", l.K, r.K)
	return nil
}

func valuesEqualDeep(a, b *val.V) bool {
	// recursiveNodeEqual: scalars by tag-insensitive value? The documentation only shows same-typed elements.
	if a.K != b.K {
		if a.IsScalar() && b.IsScalar() && a.S == b.S {
			undef("array subtraction: equal text, different types")
		}
		return false
	}
	if a.IsScalar() {
		return a.S == b.S
	}
	if len(a.Vals) != len(b.Vals) {
		return false
	}
	if a.K == val.Seq {
		for i := range a.Vals {
			if !valuesEqualDeep(a.Vals[i], b.Vals[i]) {
				return false
			}
		}
		return true
	}
	// maps: order-insensitive
	for i, k := range a.Keys {
		found := false
		for j, bk := range b.Keys {
			if bk.S == k.S {
				if !valuesEqualDeep(a.Vals[i], b.Vals[j]) {
					return false
				}
				found = true
				break
			}
		}
		if !found {
			return false
		}
	}
	return true
}

func subRef(l, r *val.V) *val.V {
	if l.K == val.Null {
		undef("null - x")
	}
	switch l.K {
	case val.Map:
		fail("maps not supported for subtraction")
	case val.Seq:
		if r.K != val.Seq {
			fail("%s cannot be subtracted from a sequence", r.K)
		}
		t := val.SeqV()
		for _, x := range l.Vals {
			keep := true
			for _, y := range r.Vals {
				if valuesEqualDeep(x, y) {
					keep = false
					break
				}
			}
			if keep {
				t.Vals = append(t.Vals, x.Copy())
			}
		}
		return t
	}
	if !r.IsScalar() {
		fail("%s cannot be subtracted from %s", r.K, l.K)
	}
	switch {
	case l.K == val.Str:
		fail("strings cannot be subtracted")
	case l.K == val.Int && r.K == val.Int:
		a, b := intOf(l), intOf(r)
		s := a - b
		if (s < a) != (b > 0) {
			undef("integer overflow")
		}
		return val.IntV(s)
	case isNum(l) && isNum(r):
		return val.FloatV(floatOf(l) - floatOf(r))
	}
	undef("%s - %s", l.K, r.K)
	return nil
}

func divRef(l, r *val.V) *val.V {
	if l.K == val.Null {
		fail("null cannot be divided")
	}
	if !l.IsScalar() || !r.IsScalar() {
		fail("%s cannot be divided by %s", l.K, r.K)
	}
	switch {
	case l.K == val.Str && r.K == val.Str:
		s := val.SeqV()
		if l.S != "" {
			for _, p := range strings.Split(l.S, r.S) {
				s.Vals = append(s.Vals, val.StrV(p))
			}
		}
		return s
	case isNum(l) && isNum(r):
		return val.FloatV(floatOf(l) / floatOf(r))
	}
	undef("%s / %s", l.K, r.K)
	return nil
}

func modRef(l, r *val.V) *val.V {
	if l.K == val.Null {
		fail("null cannot modulo")
	}
	if !l.IsScalar() || !r.IsScalar() {
		fail("%s cannot modulo by %s", l.K, r.K)
	}
	switch {
	case l.K == val.Int && r.K == val.Int:
		a, b := intOf(l), intOf(r)
		if b == 0 {
			fail("cannot modulo by 0")
		}
		return val.IntV(a % b)
	case isNum(l) && isNum(r):
		return val.FloatV(math.Mod(floatOf(l), floatOf(r)))
	}
	undef("%s %% %s", l.K, r.K)
	return nil
}

func containsRef(l, r *val.V) bool {
	switch l.K {
	case val.Map:
		if r.K != val.Map {
			return false
		}
		for i, rk := range r.Keys {
			found := false
			for j, lk := range l.Keys {
				if lk.S == rk.S && lk.K == rk.K {
					if !containsRef(l.Vals[j], r.Vals[i]) {
						return false
					}
					found = true
					break
				}
			}
			if !found {
				return false
			}
		}
		return true
	case val.Seq:
		if r.K != val.Seq {
			for _, x := range l.Vals {
				if containsRef(x, r) {
					return true
				}
			}
			return false
		}
		for _, y := range r.Vals {
			ok := false
			for _, x := range l.Vals {
				if containsRef(x, y) {
					ok = true
					break
				}
			}
			if !ok {
				return false
			}
		}
		return true
	}
	if !r.IsScalar() || l.K != r.K {
		return false
	}
	if l.K == val.Str {
		return strings.Contains(l.S, r.S)
	}
	if isNum(l) && l.S != r.S && floatOf(l) == floatOf(r) {
		undef("contains: numbers of equal value and different spelling")
	}
	return l.S == r.S
}
