package refsem

import (
	"strings"

	"verif/mc/internal/val"
)

// assignInto makes dst (identity preserved) a copy of src – UpdateFrom.
func assignInto(dst, src *val.V) {
	if dst == src {
		return
	}
	c := src.Copy()
	dst.K, dst.S, dst.Keys, dst.Vals = c.K, c.S, c.Keys, c.Vals
}

func (m *Machine) evUpdate(e *E, in []*val.V, c Ctx) []*val.V {
	switch e.Op {
	case "assign":
		// assign-update.md "plain form": the LHS is evaluated in a writable context (missing paths are created),
		// then for every context node each LHS match receives each RHS result (the last one stays); RHS is read-only.
		m.ev(e.A[0], in, c)
		for _, n := range in {
			one := []*val.V{n}
			for _, l := range m.ev(e.A[0], one, c.ro()) {
				for _, r := range m.ev(e.A[1], one, c.ro()) {
					assignInto(l, r)
				}
			}
		}
		return in
	case "update":
		// "update form": each match gets the first result of the RHS evaluated with the match as context, last match first
		L := m.ev(e.A[0], in, c)
		for i := len(L) - 1; i >= 0; i-- {
			r := m.ev(e.A[1], []*val.V{L[i]}, c)
			if len(r) > 0 {
				assignInto(L[i], r[0])
			}
		}
		return in
	case "addassign", "subassign", "mulassign":
		op := map[string]string{"addassign": "add", "subassign": "sub", "mulassign": "mul"}[e.Op]
		// each match m of the left side receives `m op e`, e evaluated (read-only) relative to the context node m was reached from
		for _, n := range in {
			for _, cand := range m.ev(e.A[0], []*val.V{n}, c) {
				clone := cand.Copy()
				calcE := &E{Op: op, S: e.S, A: []*E{{Op: "ref", V: clone}, e.A[1]}}
				for _, r := range m.binaryRef(calcE, clone, n, c.ro()) {
					assignInto(cand, r)
				}
			}
		}
		return in
	case "del":
		victims := m.ev(e.A[0], in, c.ro())
		dead := map[*val.V]bool{}
		for _, v := range victims {
			dead[v] = true
		}
		var out []*val.V
		for _, n := range in {
			if dead[n] {
				continue
			}
			removeDead(n, dead)
			out = append(out, n)
		}
		return out
	case "with":
		for _, cand := range m.ev(e.A[0], in, c) {
			m.ev(e.A[1], []*val.V{cand}, c)
		}
		return in
	}
	panic("evUpdate " + e.Op)
}

// binaryRef computes `lhsValue op e` for one context node n (used by the compound assignments).
func (m *Machine) binaryRef(e *E, l *val.V, n *val.V, c Ctx) []*val.V {
	R := m.ev(e.A[1], []*val.V{n}, c)
	var out []*val.V
	if len(R) == 0 {
		if e.Op == "add" {
			if x := m.calc(e, l, nil); x != nil {
				out = append(out, x)
			}
		}
		return out
	}
	for _, r := range R {
		if x := m.calc(e, l, r); x != nil {
			out = append(out, x)
		}
	}
	return out
}

func removeDead(n *val.V, dead map[*val.V]bool) {
	switch n.K {
	case val.Seq:
		var keep []*val.V
		for _, v := range n.Vals {
			if !dead[v] {
				removeDead(v, dead)
				keep = append(keep, v)
			}
		}
		n.Vals = keep
	case val.Map:
		var kk, kv []*val.V
		for i, v := range n.Vals {
			if !dead[v] && !dead[n.Keys[i]] {
				removeDead(v, dead)
				kk = append(kk, n.Keys[i])
				kv = append(kv, v)
			}
		}
		n.Keys, n.Vals = kk, kv
	}
}

// --- multiply / deep merge (multiply-merge.md) -------------------------------------------------------------------

type mergeFlags struct{ appendArr, deepArr, onlyExisting, onlyNew bool }

func parseFlags(s string) mergeFlags {
	return mergeFlags{strings.Contains(s, "+"), strings.Contains(s, "d"), strings.Contains(s, "?"), strings.Contains(s, "n")}
}

func (f mergeFlags) any() bool { return f.appendArr || f.deepArr || f.onlyExisting || f.onlyNew }

func (m *Machine) mulRef(e *E, l, r *val.V) *val.V {
	f := parseFlags(e.S)
	if r.K == val.Null {
		return l.Copy() // "merging with null" returns the left operand
	}
	if (l.K == val.Map || l.K == val.Null) && r.K == val.Map || (l.K == val.Seq || l.K == val.Null) && r.K == val.Seq {
		if l.K == val.Null {
			if f.any() {
				undef("null * container with merge flags")
			}
			return r.Copy()
		}
		return Merge(l, r, f)
	}
	if !l.IsScalar() || !r.IsScalar() {
		fail("cannot multiply %s with %s", l.K, r.K)
	}
	switch {
	case l.K == val.Int && r.K == val.Int:
		a, b := intOf(l), intOf(r)
		p := a * b
		if a != 0 && (p/a != b || (a == -1 && b == -1<<63)) {
			undef("integer overflow")
		}
		return val.IntV(p)
	case isNum(l) && isNum(r):
		return val.FloatV(floatOf(l) * floatOf(r))
	case l.K == val.Str && r.K == val.Int, l.K == val.Int && r.K == val.Str:
		s, n := l, r
		if l.K == val.Int {
			s, n = r, l
		}
		cnt := intOf(n)
		if cnt < 0 {
			fail("cannot repeat string by a negative number")
		}
		if cnt > 1000 {
			undef("large repetition")
		}
		return val.StrV(strings.Repeat(s.S, int(cnt)))
	}
	undef("%s * %s", l.K, r.K)
	return nil
}

// Merge is the documented deep merge: a's entries first, then b's new ones; recursive on map/map;
// sequences replaced / appended (+) / merged by position (d); ? only existing keys, n only new keys.
func Merge(a, b *val.V, f mergeFlags) *val.V {
	if f.appendArr && f.deepArr {
		undef("+ combined with d")
	}
	switch {
	case a.K == val.Map && b.K == val.Map:
		t := a.Copy()
		for i, bk := range b.Keys {
			bv := b.Vals[i]
			idx := -1
			for j, tk := range t.Keys {
				if tk.S == bk.S {
					if tk.K != bk.K {
						undef("merge: keys with equal text and different types")
					}
					idx = j
					break
				}
			}
			if strings.ContainsAny(bk.S, "*?") {
				undef("merge: wildcard characters in a key")
			}
			if idx < 0 {
				if f.onlyExisting {
					continue
				}
				t.Keys = append(t.Keys, bk.Copy())
				t.Vals = append(t.Vals, mergeNew(bv, f))
				continue
			}
			t.Vals[idx] = mergeValue(t.Vals[idx], bv, f)
		}
		return t
	case a.K == val.Seq && b.K == val.Seq:
		return mergeValue(a, b, f)
	}
	panic("Merge of non-containers")
}

// mergeNew is what a key that exists only in b contributes.
func mergeNew(bv *val.V, f mergeFlags) *val.V {
	return bv.Copy()
}

func mergeValue(av, bv *val.V, f mergeFlags) *val.V {
	aMap, bMap := av.K == val.Map, bv.K == val.Map
	aSeq, bSeq := av.K == val.Seq, bv.K == val.Seq
	switch {
	case aMap && bMap:
		return Merge(av, bv, f)
	case aSeq && bSeq:
		switch {
		case f.onlyNew && !f.deepArr:
			return av.Copy() // n: a key that exists on the left is left alone
		case f.appendArr:
			t := av.Copy()
			for _, x := range bv.Vals {
				t.Vals = append(t.Vals, x.Copy())
			}
			return t
		case f.deepArr:
			t := av.Copy()
			for i, x := range bv.Vals {
				if i < len(t.Vals) {
					t.Vals[i] = mergeValue(t.Vals[i], x, f)
				} else {
					if f.onlyExisting {
						continue // `?`: a position the left sequence does not have is not an existing entry
					}
					t.Vals = append(t.Vals, x.Copy())
				}
			}
			return t
		default:
			return bv.Copy()
		}
	}
	// a conflict of kinds, or scalars
	if (aMap != bMap || aSeq != bSeq) && f.any() {
		undef("map-vs-non-map or sequence-vs-scalar conflict combined with a flag (left open by the documentation)")
	}
	if f.onlyNew {
		if av.K == val.Null {
			undef("n with an existing null on the left")
		}
		return av.Copy()
	}
	return bv.Copy()
}
