// Package val is the boring value model shared by generators and reference models:
// ordered maps, sequences and tagged scalars (the JSON data model plus YAML's int/float split).
package val

import (
	"fmt"
	"math"
	"math/big"
	"sort"
	"strconv"
	"strings"
)

type Kind int

const (
	Null Kind = iota
	Bool
	Int
	Float
	Str
	Seq
	Map
)

func (k Kind) String() string {
	return [...]string{"null", "bool", "int", "float", "str", "seq", "map"}[k]
}

// V is a value with identity (pointer) – the reference machine mutates values in place.
type V struct {
	K    Kind
	S    string // scalar text as written (null: "null")
	Keys []*V   // map keys (scalars)
	Vals []*V   // map values or sequence elements
	// Raw, when set on a document, is the YAML text it is written as (anchors, aliases and merge keys that the value does not show)
	Raw string
}

func NullV() *V           { return &V{K: Null, S: "null"} }
func BoolV(b bool) *V     { return &V{K: Bool, S: strconv.FormatBool(b)} }
func IntV(i int64) *V     { return &V{K: Int, S: strconv.FormatInt(i, 10)} }
func IntText(s string) *V { return &V{K: Int, S: s} }
func FloatV(f float64) *V { return &V{K: Float, S: FormatFloat(f)} }
func FloatText(s string) *V {
	return &V{K: Float, S: s}
}
func StrV(s string) *V { return &V{K: Str, S: s} }
func SeqV(e ...*V) *V  { return &V{K: Seq, Vals: e} }
func MapV(kv ...*V) *V {
	m := &V{K: Map}
	for i := 0; i+1 < len(kv); i += 2 {
		m.Keys = append(m.Keys, kv[i])
		m.Vals = append(m.Vals, kv[i+1])
	}
	return m
}

// FormatFloat mirrors how yq prints computed floats (strconv 'f'/-1 via %v of float64 in createScalarNode).
func FormatFloat(f float64) string {
	if math.IsInf(f, 1) {
		return "+Inf"
	}
	if math.IsInf(f, -1) {
		return "-Inf"
	}
	if math.IsNaN(f) {
		return "NaN"
	}
	return fmt.Sprintf("%v", f)
}

func (v *V) IsScalar() bool { return v.K < Seq }

func (v *V) Copy() *V {
	if v == nil {
		return nil
	}
	c := &V{K: v.K, S: v.S}
	if v.Keys != nil {
		c.Keys = make([]*V, len(v.Keys))
		for i, k := range v.Keys {
			c.Keys[i] = k.Copy()
		}
	}
	if v.Vals != nil {
		c.Vals = make([]*V, len(v.Vals))
		for i, k := range v.Vals {
			c.Vals[i] = k.Copy()
		}
	}
	return c
}

// Size counts content nodes (containers and scalars; map keys are not counted).
func (v *V) Size() int {
	n := 1
	for _, c := range v.Vals {
		n += c.Size()
	}
	return n
}

func (v *V) Depth() int {
	d := 0
	for _, c := range v.Vals {
		if x := c.Depth(); x > d {
			d = x
		}
	}
	return d + 1
}

// NumVal parses a numeric scalar the way YAML core schema does (decimal, 0x, 0o, floats, inf/nan).
func (v *V) NumVal() (float64, bool) {
	switch v.K {
	case Int:
		if i, ok := ParseInt(v.S); ok {
			f, _ := new(big.Float).SetInt(i).Float64()
			return f, true
		}
	case Float:
		return ParseFloat(v.S)
	}
	return 0, false
}

func ParseInt(s string) (*big.Int, bool) {
	t := strings.ReplaceAll(s, "_", "")
	neg := false
	if strings.HasPrefix(t, "-") {
		neg = true
		t = t[1:]
	} else if strings.HasPrefix(t, "+") {
		t = t[1:]
	}
	base := 10
	if strings.HasPrefix(t, "0x") || strings.HasPrefix(t, "0X") {
		base = 16
		t = t[2:]
	} else if strings.HasPrefix(t, "0o") {
		base = 8
		t = t[2:]
	}
	i, ok := new(big.Int).SetString(t, base)
	if !ok {
		return nil, false
	}
	if neg {
		i.Neg(i)
	}
	return i, true
}

func ParseFloat(s string) (float64, bool) {
	switch strings.ToLower(s) {
	case ".inf", "+.inf", "+inf", "inf":
		return math.Inf(1), true
	case "-.inf", "-inf":
		return math.Inf(-1), true
	case ".nan", "nan":
		return math.NaN(), true
	}
	f, err := strconv.ParseFloat(strings.ReplaceAll(s, "_", ""), 64)
	if err != nil {
		if ne, ok := err.(*strconv.NumError); ok && ne.Err == strconv.ErrRange {
			return f, true
		}
		return 0, false
	}
	return f, true
}

// String renders a canonical, type-exact form: i:1 f:1.5 s:"a" b:true null [..] {k: v}.
func (v *V) String() string {
	var sb strings.Builder
	v.write(&sb)
	return sb.String()
}

func (v *V) write(sb *strings.Builder) {
	if v == nil {
		sb.WriteString("<nil>")
		return
	}
	switch v.K {
	case Null:
		sb.WriteString("null")
	case Bool:
		sb.WriteString(v.S)
	case Int:
		if i, ok := ParseInt(v.S); ok {
			sb.WriteString("i:" + i.String())
		} else {
			sb.WriteString("i?:" + v.S)
		}
	case Float:
		if f, ok := ParseFloat(v.S); ok {
			sb.WriteString("f:" + FormatFloat(f))
		} else {
			sb.WriteString("f?:" + v.S)
		}
	case Str:
		sb.WriteString(strconv.Quote(v.S))
	case Seq:
		sb.WriteByte('[')
		for i, c := range v.Vals {
			if i > 0 {
				sb.WriteByte(',')
			}
			c.write(sb)
		}
		sb.WriteByte(']')
	case Map:
		sb.WriteByte('{')
		for i, c := range v.Vals {
			if i > 0 {
				sb.WriteByte(',')
			}
			v.Keys[i].write(sb)
			sb.WriteByte(':')
			c.write(sb)
		}
		sb.WriteByte('}')
	}
}

func Equal(a, b *V) bool { return a.String() == b.String() }

// JSON renders the value as JSON text (used as input to the real decoder); ints/floats keep their text.
func (v *V) JSON() string {
	var sb strings.Builder
	v.json(&sb)
	return sb.String()
}

// YAMLFlow is JSON() with map keys that are not strings left unquoted ({1: "a"}): read as YAML it gives the same value back,
// key types included.
func (v *V) YAMLFlow() string {
	if v.Raw != "" {
		return v.Raw
	}
	var sb strings.Builder
	v.flow(&sb, true)
	return sb.String()
}

func (v *V) json(sb *strings.Builder) { v.flow(sb, false) }

func (v *V) flow(sb *strings.Builder, typedKeys bool) {
	switch v.K {
	case Null:
		sb.WriteString("null")
	case Bool, Int, Float:
		sb.WriteString(v.S)
	case Str:
		sb.WriteString(JSONQuote(v.S))
	case Seq:
		sb.WriteByte('[')
		for i, c := range v.Vals {
			if i > 0 {
				sb.WriteString(", ")
			}
			c.flow(sb, typedKeys)
		}
		sb.WriteByte(']')
	case Map:
		sb.WriteByte('{')
		for i, c := range v.Vals {
			if i > 0 {
				sb.WriteString(", ")
			}
			if v.Keys[i].K == Str || !typedKeys || !v.Keys[i].IsScalar() {
				sb.WriteString(JSONQuote(v.Keys[i].S))
			} else {
				sb.WriteString(v.Keys[i].S)
			}
			sb.WriteString(": ")
			c.flow(sb, typedKeys)
		}
		sb.WriteByte('}')
	}
}

func JSONQuote(s string) string {
	var sb strings.Builder
	sb.WriteByte('"')
	for _, r := range s {
		switch {
		case r == '"':
			sb.WriteString(`\"`)
		case r == '\\':
			sb.WriteString(`\\`)
		case r == '\n':
			sb.WriteString(`\n`)
		case r == '\t':
			sb.WriteString(`\t`)
		case r == '\r':
			sb.WriteString(`\r`)
		case r < 0x20 || r == 0x7f || r == 0x85 || r == 0x2028 || r == 0x2029:
			sb.WriteString(fmt.Sprintf(`\u%04x`, r))
		default:
			sb.WriteRune(r)
		}
	}
	sb.WriteByte('"')
	return sb.String()
}

// Universe enumerates every document with at most n content nodes over the given scalars and keys,
// maps in every key order (keys distinct), in a canonical simplest-first order.
func Universe(n int, scalars []*V, keys []string) []*V {
	bySize := make([][]*V, n+1)
	for size := 1; size <= n; size++ {
		var out []*V
		if size == 1 {
			for _, s := range scalars {
				out = append(out, s.Copy())
			}
			out = append(out, SeqV(), MapV())
			out[len(out)-2].Vals = []*V{}
		} else {
			// sequences: compositions of size-1 into k>=1 parts
			for _, parts := range compositions(size-1, size-1) {
				for _, elems := range product(bySize, parts) {
					out = append(out, SeqV(copyAll(elems)...))
				}
			}
			// maps: k distinct keys in every order
			for _, parts := range compositions(size-1, len(keys)) {
				for _, ks := range keyArrangements(keys, len(parts)) {
					for _, elems := range product(bySize, parts) {
						m := &V{K: Map}
						for i, e := range elems {
							m.Keys = append(m.Keys, StrV(ks[i]))
							m.Vals = append(m.Vals, e.Copy())
						}
						out = append(out, m)
					}
				}
			}
		}
		bySize[size] = out
	}
	var all []*V
	for size := 1; size <= n; size++ {
		all = append(all, bySize[size]...)
	}
	return all
}

func copyAll(l []*V) []*V {
	o := make([]*V, len(l))
	for i, e := range l {
		o[i] = e.Copy()
	}
	return o
}

func compositions(total, maxParts int) [][]int {
	var out [][]int
	var rec func(rem int, cur []int)
	rec = func(rem int, cur []int) {
		if rem == 0 {
			if len(cur) > 0 {
				out = append(out, append([]int{}, cur...))
			}
			return
		}
		if len(cur) == maxParts {
			return
		}
		for p := 1; p <= rem; p++ {
			rec(rem-p, append(cur, p))
		}
	}
	rec(total, nil)
	sort.SliceStable(out, func(i, j int) bool { return len(out[i]) < len(out[j]) })
	return out
}

func product(bySize [][]*V, parts []int) [][]*V {
	out := [][]*V{{}}
	for _, p := range parts {
		var next [][]*V
		for _, pre := range out {
			for _, e := range bySize[p] {
				next = append(next, append(append([]*V{}, pre...), e))
			}
		}
		out = next
	}
	return out
}

func keyArrangements(keys []string, k int) [][]string {
	var out [][]string
	var rec func(cur []string, used []bool)
	rec = func(cur []string, used []bool) {
		if len(cur) == k {
			out = append(out, append([]string{}, cur...))
			return
		}
		for i, key := range keys {
			if used[i] {
				continue
			}
			used[i] = true
			rec(append(cur, key), used)
			used[i] = false
		}
	}
	rec(nil, make([]bool, len(keys)))
	return out
}

// Sigma is the default scalar alphabet; SigmaPlus the extended one.
func Sigma() []*V {
	return []*V{NullV(), BoolV(true), IntV(0), IntV(1), StrV("a")}
}
func SigmaPlus() []*V {
	return append(Sigma(), BoolV(false), IntV(-1), IntV(2), FloatText("1.5"), StrV("b"), StrV(""))
}
