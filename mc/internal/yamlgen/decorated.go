// Package yamlgen renders values as YAML text with a chosen presentation (styles, comments, anchors).
package yamlgen

import (
	"fmt"
	"strconv"
	"strings"

	"verif/mc/internal/val"
)

// Decorated renders v as block-style YAML in which every map entry carries a unique head comment, every scalar a line
// comment, and string scalars alternate between plain, single- and double-quoted style – so that any lost comment,
// changed style or rewritten node shows up in the output.
func Decorated(v *val.V) string {
	var sb strings.Builder
	d := &decorator{}
	sb.WriteString("# leading comment\n")
	switch {
	case v.IsScalar():
		sb.WriteString(d.scalar(v) + " # line root\n")
	case len(v.Vals) == 0:
		if v.K == val.Seq {
			sb.WriteString("[] # line root\n")
		} else {
			sb.WriteString("{} # line root\n")
		}
	default:
		d.block(&sb, v, 0, "r")
	}
	return sb.String()
}

type decorator struct{ n int }

func (d *decorator) scalar(v *val.V) string {
	if v.K != val.Str {
		return v.S
	}
	d.n++
	plainSafe := v.S != "" && !strings.ContainsAny(v.S, ":#'\"\n\t[]{},&*!|>%@`\\ ") && !looksTyped(v.S)
	switch {
	case plainSafe && d.n%3 == 0:
		return v.S
	case d.n%3 == 1 && !strings.ContainsAny(v.S, "\n\t\\"):
		return "'" + strings.ReplaceAll(v.S, "'", "''") + "'"
	}
	return strconv.Quote(v.S)
}

func looksTyped(s string) bool {
	switch strings.ToLower(s) {
	case "null", "~", "true", "false", "yes", "no", "on", "off", "y", "n":
		return true
	}
	if _, err := strconv.ParseFloat(s, 64); err == nil {
		return true
	}
	if len(s) >= 8 && s[0] >= '0' && s[0] <= '9' && strings.Count(s, "-") >= 2 {
		return true // dates / timestamps
	}
	return strings.HasPrefix(s, "0x") || strings.HasPrefix(s, "0o") || strings.HasPrefix(s, ".") || strings.HasPrefix(s, "-") || strings.HasPrefix(s, "<<")
}

func (d *decorator) block(sb *strings.Builder, v *val.V, indent int, path string) {
	pad := strings.Repeat("  ", indent)
	for i, c := range v.Vals {
		var head, lead string
		if v.K == val.Map {
			k := v.Keys[i]
			head = fmt.Sprintf("%s# head %s.%s\n", pad, path, k.S)
			lead = pad + d.scalar(k) + ":"
			if k.K != val.Str {
				lead = pad + k.S + ":"
			}
		} else {
			head = fmt.Sprintf("%s# head %s[%d]\n", pad, path, i)
			lead = pad + "-"
		}
		sub := fmt.Sprintf("%s/%d", path, i)
		sb.WriteString(head)
		switch {
		case c.IsScalar():
			fmt.Fprintf(sb, "%s %s # line %s\n", lead, d.scalar(c), sub)
		case len(c.Vals) == 0 && c.K == val.Seq:
			fmt.Fprintf(sb, "%s [] # line %s\n", lead, sub)
		case len(c.Vals) == 0:
			fmt.Fprintf(sb, "%s {} # line %s\n", lead, sub)
		default:
			sb.WriteString(lead + "\n")
			d.block(sb, c, indent+1, sub)
		}
	}
}
