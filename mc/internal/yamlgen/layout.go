package yamlgen

import (
	"fmt"
	"strconv"
	"strings"

	"verif/mc/internal/val"
)

// L is an abstract YAML layout: a value together with its presentation (the generator's ground truth).
type L struct {
	Kind   val.Kind // val.Seq, val.Map, or a scalar kind
	Text   string   // scalar text (for strings the string itself; for others the spelling)
	Style  string   // scalars: "" plain, "single", "double", "literal", "folded"; collections: "" block, "flow"
	Tag    string   // explicit tag written in the text ("" = none)
	Anchor string
	Alias  string // non-empty: this node is an alias *name (Kind ignored)
	Head   string // comment texts (without '#')
	Line   string
	Tight  bool // the foot comment follows the entry directly (no blank line before it): the form the parser reads as a foot comment of a middle entry
	Foot   string
	Keys   []*L
	Kids   []*L
}

func (l *L) Copy() *L {
	c := *l
	c.Keys, c.Kids = nil, nil
	for _, k := range l.Keys {
		c.Keys = append(c.Keys, k.Copy())
	}
	for _, k := range l.Kids {
		c.Kids = append(c.Kids, k.Copy())
	}
	return &c
}

// FromV lifts a value into an undecorated layout (strings that are not plain-safe get double quotes).
func FromV(v *val.V) *L {
	l := &L{Kind: v.K, Text: v.S}
	if v.K == val.Null {
		l.Text = "null"
	}
	if v.K == val.Str && !PlainSafe(v.S) {
		l.Style = "double"
	}
	for i, c := range v.Vals {
		if v.K == val.Map {
			l.Keys = append(l.Keys, FromV(v.Keys[i]))
		}
		l.Kids = append(l.Kids, FromV(c))
	}
	return l
}

// Value is the data the layout denotes (aliases resolved through anchors).
func (l *L) Value(anchors map[string]*L) *val.V {
	if l.Alias != "" {
		t := anchors[l.Alias]
		if t == nil {
			return val.StrV("<dangling alias>")
		}
		return t.Value(anchors)
	}
	switch l.Kind {
	case val.Seq, val.Map:
		v := &val.V{K: l.Kind}
		for i, c := range l.Kids {
			if l.Kind == val.Map {
				v.Keys = append(v.Keys, l.Keys[i].Value(anchors))
			}
			v.Vals = append(v.Vals, c.Value(anchors))
		}
		return v
	}
	k := l.Kind
	if l.Tag == "!!str" || (l.Style != "" && l.Tag == "") {
		k = val.Str // quoted or block scalars are strings whatever they look like
	}
	if l.Tag != "" && !strings.HasPrefix(l.Tag, "!!") {
		return val.StrV(l.Tag + " " + l.Text) // custom tag: compared as tag + text
	}
	if k == val.Null {
		return val.NullV()
	}
	return &val.V{K: k, S: l.Text}
}

func (l *L) Anchors(into map[string]*L) {
	if l.Anchor != "" {
		into[l.Anchor] = l
	}
	for _, k := range l.Keys {
		k.Anchors(into)
	}
	for _, k := range l.Kids {
		k.Anchors(into)
	}
}

// PlainSafe: may this string be written as a plain scalar and still be read as the same string?
func PlainSafe(s string) bool {
	if s == "" || looksTyped(s) {
		return false
	}
	if strings.ContainsAny(s, ":#'\"\n\t[]{},&*!|>%@`\\") || s[0] == ' ' || s[len(s)-1] == ' ' || s[0] == '-' || s[0] == '?' {
		return false
	}
	for _, r := range s {
		if r < 0x20 || r == 0x7f || r > 0xffff || r == 0x85 || r == 0x2028 || r == 0x2029 || r == 0xfeff {
			return false
		}
	}
	return true
}

// StyleLegal: can the renderer write this text in this style so that it reads back as exactly this text?
func StyleLegal(style, s string) bool {
	switch style {
	case "":
		return PlainSafe(s)
	case "single":
		if strings.ContainsAny(s, "\n\t\\") {
			return false
		}
		for _, r := range s {
			if r < 0x20 || r == 0x7f || r == 0x85 || r == 0x2028 || r == 0x2029 {
				return false
			}
		}
		return true
	case "double":
		return true
	case "literal":
		// content lines must not be blank-only at the start, no trailing spaces issues; keep it to simple multi-line texts
		// one leading blank line and blank lines between paragraphs need no indicator; leading spaces and trailing blank lines would
		if s == "" || s == "\n" || !strings.HasSuffix(s, "\n") || strings.HasPrefix(s, "\n\n") || strings.HasPrefix(s, " ") || strings.HasPrefix(s, "\n ") || strings.Contains(s, "\n\n\n") || strings.Contains(s, "\t") || strings.HasSuffix(s, "\n\n") {
			return false
		}
		for _, r := range s {
			if (r < 0x20 && r != '\n') || r == 0x7f || r == 0x85 || r == 0x2028 || r == 0x2029 {
				return false
			}
		}
		return !strings.Contains(s, " \n") && !strings.Contains(s, "\n ")
	case "folded":
		// single paragraph ending in one newline: folding cannot change it
		if !StyleLegal("literal", s) {
			return false
		}
		return strings.Count(s, "\n") == 1
	}
	return false
}

func renderScalar(l *L) string {
	var pre string
	if l.Anchor != "" {
		pre += "&" + l.Anchor + " "
	}
	if l.Tag != "" {
		pre += l.Tag + " "
	}
	switch l.Style {
	case "single":
		return pre + "'" + strings.ReplaceAll(l.Text, "'", "''") + "'"
	case "double":
		return pre + dq(l.Text)
	}
	return pre + l.Text
}

func dq(s string) string {
	var sb strings.Builder
	sb.WriteByte('"')
	for _, r := range s {
		switch {
		case r == '"':
			sb.WriteString(`\"`)
		case r == '\\':
			sb.WriteString(`\\`)
		case r == '\n':
			sb.WriteString(`\n`)
		case r == '\t':
			sb.WriteString(`\t`)
		case r == '\r':
			sb.WriteString(`\r`)
		case r < 0x20 || r == 0x7f || r == 0x85 || r == 0xa0 || r == 0x2028 || r == 0x2029 || r == 0xfeff:
			if r <= 0xff {
				sb.WriteString(fmt.Sprintf(`\x%02x`, r))
			} else {
				sb.WriteString(fmt.Sprintf(`\u%04x`, r))
			}
		default:
			sb.WriteRune(r)
		}
	}
	sb.WriteByte('"')
	return sb.String()
}

func isBlock(l *L) bool { return l.Style == "literal" || l.Style == "folded" }

func (l *L) isColl() bool { return l.Alias == "" && (l.Kind == val.Seq || l.Kind == val.Map) }

// flow renders a subtree in flow style (no comments inside).
func flow(l *L) string {
	if l.Alias != "" {
		return "*" + l.Alias
	}
	if !l.isColl() {
		if isBlock(l) {
			c := *l
			c.Style = "double"
			return renderScalar(&c)
		}
		return renderScalar(l)
	}
	var pre string
	if l.Anchor != "" {
		pre = "&" + l.Anchor + " "
	}
	if l.Tag != "" {
		pre += l.Tag + " "
	}
	var parts []string
	for i, c := range l.Kids {
		if l.Kind == val.Map {
			parts = append(parts, flow(l.Keys[i])+": "+flow(c))
		} else {
			parts = append(parts, flow(c))
		}
	}
	if l.Kind == val.Map {
		return pre + "{" + strings.Join(parts, ", ") + "}"
	}
	return pre + "[" + strings.Join(parts, ", ") + "]"
}

// Render writes one document (without separators).
func Render(l *L) string {
	var sb strings.Builder
	renderNode(&sb, l, 0, true)
	return sb.String()
}

func comment(sb *strings.Builder, pad, text string) {
	if text == "" {
		return
	}
	for _, ln := range strings.Split(text, "\n") {
		sb.WriteString(pad + "# " + ln + "\n")
	}
}

func lineC(l *L) string {
	if l.Line == "" {
		return ""
	}
	return " # " + l.Line
}

// renderValueAfter writes the value of an entry after its lead ("k:" or "-").
func renderValueAfter(sb *strings.Builder, lead string, v *L, indent int) {
	pad := strings.Repeat("  ", indent)
	switch {
	case v.Alias != "":
		sb.WriteString(lead + " *" + v.Alias + lineC(v) + "\n")
	case v.isColl() && (v.Style == "flow" || len(v.Kids) == 0):
		sb.WriteString(lead + " " + flow(v) + lineC(v) + "\n")
	case v.isColl():
		props := ""
		if v.Anchor != "" {
			props += " &" + v.Anchor
		}
		if v.Tag != "" {
			props += " " + v.Tag
		}
		sb.WriteString(lead + props + lineC(v) + "\n")
		renderEntries(sb, v, indent+1)
	case isBlock(v):
		ind := "|"
		if v.Style == "folded" {
			ind = ">"
		}
		props := ""
		if v.Anchor != "" {
			props += " &" + v.Anchor
		}
		if v.Tag != "" {
			props += " " + v.Tag
		}
		sb.WriteString(lead + props + " " + ind + lineC(v) + "\n")
		for _, ln := range strings.Split(strings.TrimSuffix(v.Text, "\n"), "\n") {
			sb.WriteString(pad + "  " + ln + "\n")
		}
	default:
		sb.WriteString(lead + " " + renderScalar(v) + lineC(v) + "\n")
	}
	_ = pad
}

func renderEntries(sb *strings.Builder, l *L, indent int) {
	pad := strings.Repeat("  ", indent)
	for i, c := range l.Kids {
		if l.Kind == val.Map {
			k := l.Keys[i]
			comment(sb, pad, k.Head)
			comment(sb, pad, c.Head)
			lead := pad + renderScalar(k) + ":"
			if k.Line != "" && c.isColl() && c.Style != "flow" && len(c.Kids) > 0 && c.Line == "" {
				lead += " # " + k.Line
				// the value starts on the next line
				sb.WriteString(lead + "\n")
				if c.Anchor != "" || c.Tag != "" {
					// properties cannot follow a comment: put them nowhere (generator avoids this combination)
				}
				renderEntries(sb, c, indent+1)
			} else {
				renderValueAfter(sb, lead, c, indent)
			}
		} else {
			comment(sb, pad, c.Head)
			renderValueAfter(sb, pad+"-", c, indent)
		}
		if c.Foot != "" {
			if !c.Tight {
				sb.WriteString("\n")
			}
			comment(sb, pad, c.Foot)
			sb.WriteString("\n")
		}
	}
}

func renderNode(sb *strings.Builder, l *L, indent int, root bool) {
	comment(sb, "", l.Head)
	switch {
	case l.Alias != "":
		sb.WriteString("*" + l.Alias + "\n")
	case l.isColl() && (l.Style == "flow" || len(l.Kids) == 0):
		sb.WriteString(flow(l) + lineC(l) + "\n")
	case l.isColl():
		if l.Anchor != "" || l.Tag != "" {
			props := ""
			if l.Anchor != "" {
				props += "&" + l.Anchor
			}
			if l.Tag != "" {
				if props != "" {
					props += " "
				}
				props += l.Tag
			}
			sb.WriteString(props + "\n")
		}
		renderEntries(sb, l, indent)
	case isBlock(l):
		ind := "|"
		if l.Style == "folded" {
			ind = ">"
		}
		props := ""
		if l.Anchor != "" {
			props += "&" + l.Anchor + " "
		}
		if l.Tag != "" {
			props += l.Tag + " "
		}
		sb.WriteString(props + ind + lineC(l) + "\n")
		for _, ln := range strings.Split(strings.TrimSuffix(l.Text, "\n"), "\n") {
			sb.WriteString("  " + ln + "\n")
		}
	default:
		sb.WriteString(renderScalar(l) + lineC(l) + "\n")
	}
	if root && l.Foot != "" {
		sb.WriteString("\n")
		comment(sb, "", l.Foot)
	}
}

// Describe is a compact label of a layout position list (for signatures).
func Describe(path []int) string {
	var s []string
	for _, p := range path {
		s = append(s, strconv.Itoa(p))
	}
	return strings.Join(s, ".")
}
