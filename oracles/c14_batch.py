#!/usr/bin/env python3
"""Independent readers for C14 (batch): XML text written by yq is read with xml.etree, TOML documents are read with tomllib.
Input: JSON list of {kind, text, want, id}. Output: JSON list of {id, ok, detail, class}."""
import sys, json, math, datetime
import xml.etree.ElementTree as ET
try:
    import tomllib
except ImportError:
    tomllib = None

def etree_json(el):
    text = (el.text or "").strip()
    # text that yq wrote may be spread over text/tail of children: collect direct text only
    return [el.tag, dict(el.attrib), text, [etree_json(c) for c in el]]

def toml_norm(v):
    """tomllib value -> JSON-comparable structure the way yq is expected to present it."""
    if isinstance(v, dict):
        return {k: toml_norm(x) for k, x in v.items()}
    if isinstance(v, list):
        return [toml_norm(x) for x in v]
    if isinstance(v, bool):
        return v
    if isinstance(v, (datetime.datetime, datetime.date, datetime.time)):
        s = v.isoformat()
        if isinstance(v, datetime.datetime) and s.endswith("+00:00"):
            s = s[:-6] + "Z"
        return s
    if isinstance(v, float):
        if math.isinf(v) or math.isnan(v):
            return "nonfinite"
        return v
    return v

def json_norm(v):
    if isinstance(v, dict):
        return {k: json_norm(x) for k, x in v.items()}
    if isinstance(v, list):
        return [json_norm(x) for x in v]
    if isinstance(v, float) and v == int(v) and abs(v) < 2**53:
        return v
    return v

def num_eq(a, b):
    if isinstance(a, bool) or isinstance(b, bool):
        return a is b
    if isinstance(a, (int, float)) and isinstance(b, (int, float)):
        return float(a) == float(b)
    if isinstance(a, dict) and isinstance(b, dict):
        return list(a.keys()) == list(b.keys()) and all(num_eq(a[k], b[k]) for k in a)
    if isinstance(a, list) and isinstance(b, list):
        return len(a) == len(b) and all(num_eq(x, y) for x, y in zip(a, b))
    return a == b

def main():
    items = json.load(open(sys.argv[1]))
    out = []
    for it in items:
        ok, detail, cls = True, "", ""
        try:
            if it["kind"] == "xml":
                try:
                    root = ET.fromstring(it["text"])
                except ET.ParseError as e:
                    ok, detail, cls = False, "yq wrote XML that xml.etree rejects (%s): %r for %s" % (e, it["text"], it.get("src", "")), "not-well-formed"
                else:
                    got = etree_json(root)
                    want = json.loads(it["want"])
                    if got != want:
                        ok, detail, cls = False, "yq wrote %r which xml.etree reads as %s, expected %s" % (it["text"], json.dumps(got), it["want"]), "value"
            elif it["kind"] == "toml":
                if tomllib is None:
                    ok = True
                else:
                    yq = it["want"]
                    try:
                        ref = toml_norm(tomllib.loads(it["text"]))
                        ref_err = None
                    except Exception as e:  # tomllib.TOMLDecodeError
                        ref, ref_err = None, str(e)
                    if ref_err is not None:
                        # not well-formed TOML: the statement only speaks about well-formed text
                        ok = True
                    elif yq.startswith("ERROR") or yq.startswith("JSON-ERROR"):
                        if "nonfinite" in json.dumps(ref):
                            ok = True  # inf/nan cannot be shown as JSON by the harness
                        elif ref == {}:
                            ok = True  # a document without any key decodes to nothing
                        else:
                            ok, detail, cls = False, "well-formed TOML %r (= %s) is rejected by yq: %s" % (it["text"], json.dumps(ref), yq), "rejected:" + "".join(ch if ch.isalnum() else "-" for ch in yq[6:36]).strip("-")
                    else:
                        got = json.loads(yq)
                        if got is None and ref == {}:
                            ok = True
                        elif not num_eq(got, ref):
                            ok, detail, cls = False, "TOML %r denotes %s, yq decodes it to %s" % (it["text"], json.dumps(ref), yq), "value"
        except Exception as e:
            ok, detail, cls = False, "oracle failure: %r" % (e,), "oracle-error"
        out.append({"id": it["id"], "ok": ok, "detail": detail, "class": cls})
    json.dump(out, sys.stdout)

main()
