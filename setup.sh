#!/bin/bash
# Builds the framework once, offline, from files on disk (warms the Go build cache).
set -e
cd "$(dirname "$0")"
export GOFLAGS=-mod=mod GOPROXY=off GOSUMDB=off GOTOOLCHAIN=local
mkdir -p bin evidence replays
( cd mc && cp /repo/go.sum go.sum && go build -tags verif -o ../bin/mc ./cmd/mc )
( cd /repo && go build -tags verif -o /verif/bin/yq . )
( cd mc && go build -race -tags verif -o ../bin/mc-race ./cmd/mc ) || echo "note: -race build not available"
echo setup ok
