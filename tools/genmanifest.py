#!/usr/bin/env python3
"""Regenerates /verif/MANIFEST.json from the table below (kept in one place so the manifest is always valid)."""
import json, subprocess, os
ALL = ["C%02d" % i for i in range(1, 20)]
CHECKS = {
 "C01": dict(level="model_checking", technique="bounded-exhaustive conformance exploration: all expression ASTs <= k nodes x all documents <= n nodes, real evaluator vs reference abstract machine",
   text="Every core-fragment AST up to the size bound is evaluated by the real parser+evaluator on every JSON-model document up to the node bound and compared (ordered results, error/no error, document state afterwards) with a reference abstract machine written from the documentation; the verdict is a coverage statement over that finite product, which is exactly the programs x inputs quantifier the golden tests sample.",
   note="Trusted: the reference machine mc/internal/refsem (points the documentation leaves open are Undef, counted, not compared); fully parenthesised printing (precedence is C09); alphabets Sigma/keys {a,b}.", design="4/C01, 3, appendix A"),
 "C02": dict(level="model_checking", technique="bounded-exhaustive conformance exploration: all documents x path alphabet x values/update functions/compound operands, real assignment vs reference machine, plus update laws evaluated on the implementation alone",
   text="For every document of U(n), every path of a 22-path alphabet (keys, positive/negative indices, splats, unions, multi-match selections, paths that must be created including padding) and every value, update function and compound operand, the real evaluator's resulting document is compared with the reference machine's (put, frame, creation and padding are all decided by that one whole-document comparison), and put-get, put-put and get-put are additionally evaluated on the implementation's own outputs.",
   note="Trusted: refsem evUpdate; `p = p` is required to be the identity only for single-match paths that exist; right-hand sides that read a node overlapping the target are skipped (counted).", design="4/C02"),
 "C03": dict(level="model_checking", technique="explicit-state BFS over derivation pipelines on the real evaluator; in every state all selections deleted by the real del vs reference deletion-by-identity on the state's value",
   text="Breadth-first search over pipelines of derivation operators (sort, reverse, slices, map, filter, collect, +, pick, omit, with_entries, assignments of derived values, earlier deletes) replayed on the real evaluator; states are de-duplicated by the canonical node-graph dump; in every container state each of 18 selections (single paths, +/- indices, unions in both orders, duplicates, splat and recursive descent with predicates, two-digit indices) is deleted by the real del and compared with deletion by node identity, in the reference machine, of the state's value decoded afresh.",
   note="Trusted: refsem for selection evaluation and deletion; derivation operators are only used to reach states, they are judged by C01/C15/C16.", design="4/C03"),
 "C04": dict(level="model_checking", technique="bounded-exhaustive conformance exploration: all ordered pairs/triples of nested maps x all 16 flag subsets, real merge vs reference merge, plus node-graph immutability dump",
   text="All ordered pairs of nested maps up to the node bound and all 16 subsets of the merge flags are merged by the real evaluator as `[(.x * .y), .x, .y]` and compared with the reference merge and with the operands' values before; the document's node graph is dumped before and after `.x * .y`; the identities a*{} = a, {}*a = a, a*a = a are checked without a reference; the multi-document `ireduce ({}; . * $i)` form is run on documents evaluated together for all pairs and triples and compared with the left fold of the reference.",
   note="Trusted: refsem Merge; the region the property leaves open (kind conflicts combined with + ? n; + with d) is Undef and counted.", design="4/C04"),
 "C08": dict(level="model_checking", technique="bounded-exhaustive differential exploration: every vocabulary atom in every operand position x styled documents, full node-graph dump before/after on the real evaluator",
   text="Every atom of the assignment-free vocabulary is placed alone, in every operand position of the listed unary forms and on both sides of every binary operator, wrapped as `(e) as $x | .` and `.. | select(e)`, and run by the real evaluator on every styled and commented document of the bound; the complete canonical dump of the input's node graph (all fields, pointer structure) must be identical before and after, the yielded nodes must be the original ones and the document must print as before. No reference model is involved, so there is no model/code gap.",
   note="Trusted: the graph dump covers every exported field of CandidateNode; operators that are in-place by design or read the environment are excluded as the statement excludes them.", design="4/C08"),
 "C13": dict(level="model_checking", technique="bounded-exhaustive enumeration of alias/merge-key document layouts with generator ground truth; three read routes on the real code vs the YAML merge-key rules",
   text="A generator that carries its own ground truth enumerates every placement of explicit keys before/after `<<`, `<<` as a single alias or every ordered list of 1..3 aliases with overlapping keys (one anchored map itself merges another), explicit values that are plain, aliases or merging maps, and aliases to scalar/sequence/map in value position; every document is read through traversal of the un-exploded document, through explode(.) (which must leave no alias, merge key or anchor and change nothing else) and through the JSON encoder, and each key is compared with the merge-key rules.",
   note="Trusted: the 40-line resolver of the merge-key rules in c13.go. Two deviations are documented yq behaviour pinned by its tests and are listed as known findings by route and culprit; the check still reports any other disagreement.", design="4/C13"),
 "C15": dict(level="model_checking", technique="bounded-exhaustive enumeration of pairs, triples and sequences over a scalar alphabet on the real sort/compare handlers; order laws checked on every case",
   text="All ordered pairs and triples of a 29-scalar alphabet chosen per branch of the two comparators (null spellings, booleans, 64-bit extremes one apart, hex/octal, floats equal to integers, inf/nan, digit strings, non-ASCII) are pushed through the real sort_by, sort, < <= > >=, min, max: antisymmetry, transitivity, agreement with the stated order and of all operators with each other; every sequence up to the length bound is checked for permutation, order, idempotence and stability; all 65 536 two-key patterns of length 16 decide stability beyond Go's insertion-sort threshold; sort_keys on all key permutations.",
   note="Trusted: nothing beyond the law definitions; number-vs-string and true-vs-false direction are left open by the statement and any consistent choice is accepted.", design="4/C15"),
 "C16": dict(level="model_checking", technique="explicit-state BFS over derivation pipelines on the real handlers, state = canonical dump of the reachable node graph, invariant checked in every state",
   text="Breadth-first search over pipelines of derivation operators replayed on the real evaluator from every small document; states are de-duplicated by a canonical dump of the complete reachable CandidateNode graph; in every state every node inside every yielded value is checked through the real path/key/parent/keys/traversal handlers.",
   note="Trusted: handlers are functions of the reachable graph and package state; the yielded container itself is exempt; stale sequence indices after 21 listed producer operators are a recorded known finding (root cause AddChild), states violating are not expanded.", design="4/C16"),
}
def main():
    hooks_commits = []
    m = {"version": 1, "setup_cmd": "./setup.sh",
         "hooks": {"guard": "verif", "enable": "go build -tags verif (done by ./check on every run)",
                   "baseline_off_cmd": "cd /repo && GOFLAGS=-mod=mod GOPROXY=off GOSUMDB=off GOTOOLCHAIN=local go test -vet=off -count=1 ./...",
                   "source_commits": hooks_commits, "add_only": True},
         "engines": [{"name": "mc", "path": "mc/", "serves_properties": sorted(CHECKS), "kind_free_text": "hand-written Go explorer: process-sharded exhaustive enumeration / explicit-state search over the real yqlib code, reference models in Go"}],
         "checks": [], "not_applicable": [],
         "notes": "All checks: ./check <ID> quick|thorough rebuilds bin/mc and bin/yq from /repo's working tree with -tags verif. Known findings: KNOWN_FINDINGS.txt. Design: DESIGN.md."}
    for pid in ALL:
        if pid in CHECKS:
            c = CHECKS[pid]
            m["checks"].append({"property_id": pid, "quick_cmd": f"./check {pid} quick", "thorough_cmd": f"./check {pid} thorough",
                "evidence_file": f"evidence/{pid}.json", "replay_cmd_template": f"./check {pid} --replay {{path}}", "engine": "mc",
                "level_claimed": {"category": c["level"], "text": c["text"], "design_ref": c["design"]}, "level_note": c["note"], "technique": c["technique"]})
        else:
            m["not_applicable"].append({"property_id": pid, "reason": "not claimed yet: the check for this property is still being built (see DESIGN.md section 4 for the planned bounded-exhaustive check)"})
    json.dump(m, open(os.path.join(os.path.dirname(__file__), "..", "MANIFEST.json"), "w"), indent=1)
    import jsonschema
    jsonschema.validate(m, json.load(open("/root/.vp/MANIFEST.schema.json")))
    print("MANIFEST.json ok:", len(m["checks"]), "checks,", len(m["not_applicable"]), "not claimed")
main()
