#!/usr/bin/env python3
"""Prints the markdown tables embedded in DESIGN.md Part I (evidence figures, seeded changes, fixes, findings)."""
import json, glob, os, re, subprocess
os.chdir('/verif')
print("### Table 1 — what each quick check covered on the last run (from evidence/*.json)\n")
print("| id | level | evaluations | states | transitions | validated | distinct non-trivial | exhaustive | known findings hit | wall s |")
print("|---|---|---|---|---|---|---|---|---|---|")
for f in sorted(glob.glob('evidence/C*.json')):
    e = json.load(open(f)); c = e['coverage']
    print(f"| {e['property_id']} | {e['level']} | {c['evaluations']} | {c['states']} | {c['transitions']} | {c['traces_validated_against_impl']} | {c['distinct_nontrivial']} | {c['exhaustive']} | {len(c.get('known_findings_hit') or [])} | {e['wall_s']:.0f} |")
print("\n### Table 2 — seeded property-breaking changes (independent sub-agents) and which check reports them\n")
print("| seed | what was changed | needs to manifest | caught by | signature / note |")
print("|---|---|---|---|---|")
for d in sorted(glob.glob('seeded/*/meta.json')):
    m = json.load(open(d)); name = d.split('/')[1]
    wc = re.sub(r'\s+', ' ', m.get('what_changed', ''))[:230]
    nm = re.sub(r'\s+', ' ', m.get('needs_to_manifest', ''))[:200]
    print(f"| {name} | {wc} | {nm} | {m.get('caught_by','')} | {m.get('detection_note','')[:160]} |")
print("\n### Table 3 — genuine defects repaired (`fix:` commits in /repo)\n")
print("| property | commit | what failed |")
print("|---|---|---|")
for l in open('KNOWN_FINDINGS.txt'):
    if l.startswith('fixed:'):
        m = re.match(r'fixed: property=(\S+) (\S+) (.*)', l.strip())
        print(f"| {m.group(1)} | {m.group(2)} | {m.group(3)} |")
print("\n### Table 4 — genuine defects recorded, not repaired (KNOWN_FINDINGS.txt)\n")
print("| property | signature | what fails / why not repaired |")
print("|---|---|---|")
for l in open('KNOWN_FINDINGS.txt'):
    if l.startswith('finding:'):
        m = re.match(r'finding: property=(\S+) sig=(\S+) (.*)', l.strip())
        print(f"| {m.group(1)} | `{m.group(2)[:70]}` | {m.group(3)[:330]} |")
