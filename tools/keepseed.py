#!/usr/bin/env python3
"""usage: keepseed.py <srcdir> <k> <name> <caught_by> <note>
Copies a confirmed seeded change (patch_k.diff, demo_k.*, meta_k.json) into /verif/seeded/<name>/ ."""
import sys, os, json, shutil, glob
src, k, name, caught, note = sys.argv[1:6]
if name.endswith("-next"):
    # next free number for this property (numbers of changes that became void are not reused)
    pid = name[:-5]
    used = [int(d.split("-")[1]) for d in os.listdir("/verif/seeded") if d.startswith(pid + "-")]
    name = f"{pid}-{max(used + [0]) + 1}"
dst = f"/verif/seeded/{name}"
if os.path.exists(dst):
    sys.exit(f"{dst} exists already")
os.makedirs(dst, exist_ok=True)
shutil.copy(f"{src}/patch_{k}.diff", f"{dst}/patch.diff")
for f in glob.glob(f"{src}/demo_{k}*"):
    shutil.copy(f, dst)
for f in glob.glob(f"{src}/*"):
    b = os.path.basename(f)
    if not b.startswith(("patch_", "demo_", "meta_")) and os.path.isfile(f):
        shutil.copy(f, dst)
meta = json.load(open(f"{src}/meta_{k}.json"))
meta["verified_by_me"] = {"how": f"tools/seedverify.sh {src} {k} (scratch worktree of /repo HEAD: demo passes clean; with the patch the pinned suite passes and the demo fails)", "result": "confirmed"}
meta["demo"] = f"demo_{k}.sh <yq source tree>"
meta["caught_by"] = caught
meta["detection_note"] = note
json.dump(meta, open(f"{dst}/meta.json", "w"), indent=1)
print("kept", dst)
