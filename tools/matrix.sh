#!/bin/bash
# usage: tools/matrix.sh "<check ids>" [seed dirs...]  – every seeded change x every listed check (quick); prints one line per pair
cd "$(dirname "$0")/.."
CHECKS="$1"; shift
REPO="${VERIF_REPO:-/repo}"; OUT="${RUNALL_OUT:-/tmp}"; mkdir -p "$OUT"
SEEDS="$@"; [ -z "$SEEDS" ] && SEEDS=$(ls -d seeded/*/)
for s in $SEEDS; do
  name=$(basename $s)
  git -C "$REPO" diff --quiet || { echo "/repo dirty"; exit 2; }
  git -C "$REPO" apply "$(pwd)/$s/patch.diff" 2>/dev/null || { echo "$name: patch does not apply"; continue; }
  for id in $CHECKS; do
    cp evidence/$id.json $OUT/ev-$id.bak 2>/dev/null
    ./check $id quick > $OUT/matrix-$name-$id.log 2>&1; rc=$?
    cp $OUT/ev-$id.bak evidence/$id.json 2>/dev/null
    sigs=$(grep -a "^  sig=" $OUT/matrix-$name-$id.log | head -3 | cut -c1-90 | tr '\n' ';')
    echo "$name x $id: rc=$rc $sigs"
  done
  git -C "$REPO" checkout -- . ; git -C "$REPO" clean -fdq
done
