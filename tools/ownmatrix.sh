#!/bin/bash
# usage: tools/ownmatrix.sh  – every seeded change against the check of its own property (quick); one line each
cd "$(dirname "$0")/.."
for s in seeded/*/; do
  id=$(basename $s | cut -d- -f1)
  tools/matrix.sh "$id" "$s"
done
