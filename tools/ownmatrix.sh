#!/bin/bash
# usage: tools/ownmatrix.sh [seed names...]  – every (or the named) seeded change against the check of its own property (quick); one line each
cd "$(dirname "$0")/.."
LIST="$@"; [ -z "$LIST" ] && LIST=$(ls seeded)
for n in $LIST; do
  s=seeded/$n/
  id=$(echo $n | cut -d- -f1)
  tools/matrix.sh "$id" "$s"
done
