#!/bin/bash
# usage: tools/runall.sh [tier] [ids...]  – runs the registered checks one after another, prints one line each
cd "$(dirname "$0")/.."
TIER="${1:-quick}"; shift; OUT="${RUNALL_OUT:-/tmp}"; mkdir -p "$OUT"
IDS="$@"; [ -z "$IDS" ] && IDS=$(python3 -c "import json; print(' '.join(c['property_id'] for c in json.load(open('MANIFEST.json'))['checks']))")
for id in $IDS; do
  s=$(date +%s); ./check $id $TIER > $OUT/runall-$id.log 2>&1; rc=$?; e=$(date +%s)
  echo "$id rc=$rc $((e-s))s $(grep -a -c '^VIOLATION' $OUT/runall-$id.log) violations, $(grep -a -c '^KNOWN-FINDING' $OUT/runall-$id.log) known; $(grep -a "^$id $TIER" $OUT/runall-$id.log | cut -c1-120)"
done
