#!/bin/bash
# usage: tools/seedverify.sh <dir with patch_k.diff demo_k.sh> <k>
# Confirms in a scratch worktree of /repo HEAD: demo passes clean; with the patch: builds, pinned suite passes, demo fails.
export GOFLAGS=-mod=mod GOPROXY=off GOSUMDB=off GOTOOLCHAIN=local
D="$1"; K="$2"; WT=/tmp/seedwt-$$
git -C /repo worktree add --detach -q "$WT" HEAD || exit 2
trap 'git -C /repo worktree remove --force "$WT" >/dev/null 2>&1' EXIT
( cd "$D" && timeout 600 bash ./demo_$K.sh "$WT" >/tmp/seedverify-clean.log 2>&1 ); CLEAN=$?
( cd "$WT" && git apply "$D/patch_$K.diff" ) || { echo "RESULT patch does not apply to /repo HEAD"; exit 3; }
( cd "$WT" && go build ./... && go test -vet=off -count=1 ./... >/tmp/seedverify-suite.log 2>&1 ); SUITE=$?
( cd "$D" && timeout 600 bash ./demo_$K.sh "$WT" >/tmp/seedverify-patched.log 2>&1 ); PATCHED=$?
echo "RESULT demo_clean_exit=$CLEAN suite_exit=$SUITE demo_patched_exit=$PATCHED"
[ "$CLEAN" = 0 ] && [ "$SUITE" = 0 ] && [ "$PATCHED" != 0 ]
