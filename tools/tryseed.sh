#!/bin/bash
# usage: tools/tryseed.sh <patch.diff> <ID> [tier]   – applies the patch to /repo, runs the check, reverts.
P="$1"; ID="$2"; TIER="${3:-quick}"
cd /verif
git -C /repo diff --quiet || { echo "/repo has uncommitted changes"; exit 2; }
git -C /repo apply "$P" || { echo "patch does not apply"; exit 3; }
# revert, and rebuild the binaries so that nothing built from the patched tree is left in bin/
trap 'git -C /repo checkout -- . ; git -C /repo clean -fdq; ( cd /repo && GOFLAGS=-mod=mod GOPROXY=off GOSUMDB=off GOTOOLCHAIN=local go build -tags verif -o /verif/bin/yq . ) >/dev/null 2>&1' EXIT
cp evidence/$ID.json /tmp/ev-$ID.bak 2>/dev/null
./check "$ID" "$TIER" > /tmp/tryseed-$ID.log 2>&1; RC=$?
cp /tmp/ev-$ID.bak evidence/$ID.json 2>/dev/null
grep -E "^VIOLATION|sig=|^$ID|HARNESS" /tmp/tryseed-$ID.log | head -12
echo "exit=$RC"
